package chk

// E5/E6 helpers — ordering and dependency obligations over SSA.
//
// All rules built on these helpers are phrased as *dependence* or *dominance*, never as identity of a
// source fragment: a behaviour-preserving copy, rename or re-ordering of independent statements does
// not change the verdict.

import (
	"go/token"
	"go/types"
	"sort"
	"strings"

	"golang.org/x/tools/go/ssa"
)

// fn returns the SSA function for "pkg", "Recv.Name" / "Name"; reports a lost anchor otherwise.
func (c *Ctx) ssaFunc(r *Report, rule, pkg, name string) *ssa.Function {
	tf := c.LookupFunc(pkg, name)
	if tf == nil {
		r.Undecided(rule, "anchor:"+pkg+"."+name, "", "function "+pkg+"."+name+" not found (anchor lost)")
		return nil
	}
	sf := c.SSA().FuncValue(tf)
	if sf == nil || len(sf.Blocks) == 0 {
		r.Undecided(rule, "anchor:"+pkg+"."+name, "", "function "+pkg+"."+name+" has no body")
		return nil
	}
	return sf
}

// calleeName renders the callee of a call as "pkg.Recv.Name" (static) or "iface.Name" (invoke).
func calleeName(com *ssa.CallCommon) string {
	if com.IsInvoke() {
		return "iface." + com.Method.Name()
	}
	if cal := com.StaticCallee(); cal != nil {
		return SSAFuncName(cal)
	}
	if b, ok := com.Value.(*ssa.Builtin); ok {
		return "builtin." + b.Name()
	}
	return "dynamic"
}

// callsIn lists the call instructions of f (and optionally its anonymous functions) whose callee name has the suffix.
func callsIn(f *ssa.Function, suffix string, anon bool) []ssa.CallInstruction {
	var out []ssa.CallInstruction
	var visit func(g *ssa.Function)
	visit = func(g *ssa.Function) {
		for _, b := range g.Blocks {
			for _, ins := range b.Instrs {
				if ci, ok := ins.(ssa.CallInstruction); ok {
					if strings.HasSuffix(calleeName(ci.Common()), suffix) {
						out = append(out, ci)
					}
				}
			}
		}
		if anon {
			for _, a := range g.AnonFuncs {
				visit(a)
			}
		}
	}
	visit(f)
	return out
}

// depQuery describes what a backward slice must (not) contain.
type depNode struct {
	kind string // call | field | param | const
	name string
}

// backSlice collects the calls, field loads and parameters that the value data-depends on inside its
// function and through repository callees' return values (depth-limited).
func backSlice(c *Ctx, v ssa.Value, depth int) map[depNode]bool {
	out := map[depNode]bool{}
	seen := map[ssa.Value]bool{}
	var walk func(v ssa.Value, d int)
	walk = func(v ssa.Value, d int) {
		if v == nil || seen[v] || d > 40 {
			return
		}
		seen[v] = true
		// contents written into this slice with copy(dst, src)
		if refs := v.Referrers(); refs != nil {
			if _, isSlice := v.Type().Underlying().(*types.Slice); isSlice {
				for _, ref := range *refs {
					if call, ok := ref.(*ssa.Call); ok {
						if bi, ok := call.Call.Value.(*ssa.Builtin); ok && bi.Name() == "copy" && len(call.Call.Args) == 2 && call.Call.Args[0] == v {
							walk(call.Call.Args[1], d+1)
						}
					}
				}
			}
		}
		switch x := v.(type) {
		case *ssa.Const:
		case *ssa.Parameter:
			out[depNode{"param", x.Name()}] = true
		case *ssa.Call:
			out[depNode{"call", calleeName(x.Common())}] = true
			for _, a := range x.Call.Args {
				walk(a, d+1)
			}
			if x.Call.IsInvoke() {
				walk(x.Call.Value, d+1)
			}
			if cal := x.Call.StaticCallee(); cal != nil && inRepo(cal) && depth > 0 {
				for k := range returnSlice(c, cal, depth-1) {
					out[k] = true
				}
			}
		case *ssa.Extract:
			walk(x.Tuple, d+1)
		case *ssa.BinOp:
			walk(x.X, d+1)
			walk(x.Y, d+1)
		case *ssa.UnOp:
			if x.Op == token.MUL {
				switch a := x.X.(type) {
				case *ssa.FieldAddr:
					if fv := fieldVar(a.X.Type(), a.Field); fv != nil {
						out[depNode{"field", typeName(a.X.Type()) + "." + fv.Name()}] = true
					}
					walk(a.X, d+1)
				case *ssa.IndexAddr:
					walk(a.X, d+1)
					walk(a.Index, d+1)
				case *ssa.Alloc:
					for _, ref := range *a.Referrers() {
						if st, ok := ref.(*ssa.Store); ok && st.Addr == ssa.Value(a) {
							walk(st.Val, d+1)
						}
					}
				case *ssa.FreeVar:
					out[depNode{"param", a.Name()}] = true
				default:
					walk(x.X, d+1)
				}
				return
			}
			walk(x.X, d+1)
		case *ssa.Field:
			if fv := fieldVar(x.X.Type(), x.Field); fv != nil {
				out[depNode{"field", typeName(x.X.Type()) + "." + fv.Name()}] = true
			}
			walk(x.X, d+1)
		case *ssa.FieldAddr:
			if fv := fieldVar(x.X.Type(), x.Field); fv != nil {
				out[depNode{"field", typeName(x.X.Type()) + "." + fv.Name()}] = true
			}
			walk(x.X, d+1)
		case *ssa.IndexAddr:
			walk(x.X, d+1)
			walk(x.Index, d+1)
		case *ssa.Index:
			walk(x.X, d+1)
			walk(x.Index, d+1)
		case *ssa.Lookup:
			walk(x.X, d+1)
			walk(x.Index, d+1)
		case *ssa.Convert:
			walk(x.X, d+1)
		case *ssa.ChangeType:
			walk(x.X, d+1)
		case *ssa.ChangeInterface:
			walk(x.X, d+1)
		case *ssa.MakeInterface:
			walk(x.X, d+1)
		case *ssa.TypeAssert:
			walk(x.X, d+1)
		case *ssa.Slice:
			walk(x.X, d+1)
			walk(x.Low, d+1)
			walk(x.High, d+1)
		case *ssa.Phi:
			for _, e := range x.Edges {
				walk(e, d+1)
			}
		case *ssa.Range:
			walk(x.X, d+1)
		case *ssa.Next:
			walk(x.Iter, d+1)
		case *ssa.Alloc:
			for _, ref := range *x.Referrers() {
				if st, ok := ref.(*ssa.Store); ok {
					walk(st.Val, d+1)
				}
			}
		case *ssa.MakeSlice:
			walk(x.Len, d+1)
			// contents written with copy(dst, src)
			for _, ref := range *x.Referrers() {
				if call, ok := ref.(*ssa.Call); ok {
					if bi, ok := call.Call.Value.(*ssa.Builtin); ok && bi.Name() == "copy" && len(call.Call.Args) == 2 && call.Call.Args[0] == ssa.Value(x) {
						walk(call.Call.Args[1], d+1)
					}
				}
			}
		}
	}
	walk(v, 0)
	return out
}

var retSliceCache = map[*ssa.Function]map[depNode]bool{}

func returnSlice(c *Ctx, f *ssa.Function, depth int) map[depNode]bool {
	if m, ok := retSliceCache[f]; ok {
		return m
	}
	retSliceCache[f] = map[depNode]bool{}
	out := map[depNode]bool{}
	for _, b := range f.Blocks {
		for _, ins := range b.Instrs {
			if ret, ok := ins.(*ssa.Return); ok {
				for _, rv := range ret.Results {
					for k := range backSlice(c, rv, depth) {
						if k.kind != "param" {
							out[k] = true
						}
					}
				}
			}
		}
	}
	retSliceCache[f] = out
	return out
}

func sliceHas(sl map[depNode]bool, kind, suffix string) bool {
	for k := range sl {
		if k.kind == kind && strings.HasSuffix(k.name, suffix) {
			return true
		}
	}
	return false
}

func sliceNames(sl map[depNode]bool) string {
	var s []string
	for k := range sl {
		if k.kind == "call" || k.kind == "field" {
			s = append(s, k.kind+":"+k.name)
		}
	}
	sort.Strings(s)
	if len(s) > 14 {
		s = append(s[:14], "…")
	}
	return strings.Join(s, ", ")
}

// requireDeps checks that the value's backward slice contains every "kind:suffix" in must and none in mustNot.
func requireDeps(c *Ctx, r *Report, rule, key, pos string, v ssa.Value, must, mustNot []string, what string) {
	sl := backSlice(c, v, 3)
	var missing, forbidden []string
	for _, m := range must {
		// alternatives separated by '|'
		ok := false
		for _, alt := range strings.Split(m, "|") {
			i := strings.Index(alt, ":")
			if sliceHas(sl, alt[:i], alt[i+1:]) {
				ok = true
			}
		}
		if !ok {
			missing = append(missing, m)
		}
	}
	for _, m := range mustNot {
		i := strings.Index(m, ":")
		if sliceHas(sl, m[:i], m[i+1:]) {
			forbidden = append(forbidden, m)
		}
	}
	switch {
	case len(missing) > 0:
		r.Bad(rule, key, pos, what+": no longer depends on "+strings.Join(missing, ", ")+" (depends on: "+sliceNames(sl)+")")
	case len(forbidden) > 0:
		r.Bad(rule, key, pos, what+": depends on "+strings.Join(forbidden, ", ")+", which it must not")
	default:
		r.OK(rule, key, pos, what+": depends on "+strings.Join(must, ", "))
	}
}

// storesTo lists the stores in f (and callees named in via) whose address is a field "Type.Field".
func storesTo(f *ssa.Function, typeField string) []*ssa.Store {
	var out []*ssa.Store
	for _, b := range f.Blocks {
		for _, ins := range b.Instrs {
			st, ok := ins.(*ssa.Store)
			if !ok {
				continue
			}
			if fa, ok := st.Addr.(*ssa.FieldAddr); ok {
				if fv := fieldVar(fa.X.Type(), fa.Field); fv != nil && typeName(fa.X.Type())+"."+fv.Name() == typeField {
					out = append(out, st)
				}
			}
		}
	}
	return out
}

// controlConds returns the conditions of the branches that dominate the block with the block in exactly one arm.
func controlConds(b *ssa.BasicBlock) []ssa.Value {
	var out []ssa.Value
	for d := b.Idom(); d != nil; d = d.Idom() {
		if len(d.Instrs) == 0 {
			continue
		}
		ifi, ok := d.Instrs[len(d.Instrs)-1].(*ssa.If)
		if !ok {
			continue
		}
		in := 0
		for _, s := range d.Succs {
			// s is an arm of this branch only if it is entered solely from it
			if len(s.Preds) == 1 && (s == b || s.Dominates(b)) {
				in++
			}
		}
		if in == 1 {
			out = append(out, ifi.Cond)
		}
	}
	return out
}

// instrDominates: a executes before b on every path to b (same block: earlier index).
func instrDominates(a, b ssa.Instruction) bool {
	if a.Block() == b.Block() {
		for _, ins := range a.Block().Instrs {
			if ins == a {
				return true
			}
			if ins == b {
				return false
			}
		}
	}
	return a.Block().Dominates(b.Block())
}

// instrReaches: there is a path from a to b.
func instrReaches(a, b ssa.Instruction) bool {
	if a.Block() == b.Block() {
		for _, ins := range a.Block().Instrs {
			if ins == a {
				return true
			}
			if ins == b {
				break
			}
		}
	}
	for _, s := range a.Block().Succs {
		if s == b.Block() || reaches(s, b.Block()) {
			return true
		}
	}
	return false
}

// successReturns: Return instructions whose error result is the nil constant (or functions without error result).
func successReturns(f *ssa.Function) []*ssa.Return {
	var out []*ssa.Return
	for _, b := range f.Blocks {
		for _, ins := range b.Instrs {
			ret, ok := ins.(*ssa.Return)
			if !ok {
				continue
			}
			if n := len(ret.Results); n > 0 && ret.Results[n-1].Type().String() == "error" {
				if c, ok := ret.Results[n-1].(*ssa.Const); ok && c.Value == nil {
					out = append(out, ret)
				}
				// a returned error variable may be nil, unless the return sits in the "err != nil" arm of a test on it
				if _, ok := ret.Results[n-1].(*ssa.Const); !ok && !inNonNilArm(ret.Block(), ret.Results[n-1]) && !freshError(ret.Results[n-1]) {
					out = append(out, ret)
				}
				continue
			}
			out = append(out, ret)
		}
	}
	return out
}

var _ = types.Typ

// callsThrough lists the call instructions of f that call a function with the given name suffix directly,
// or call a repository helper every normal return of which is dominated by such a call (2 levels).
func callsThrough(f *ssa.Function, suffix string, depth int) []ssa.CallInstruction {
	out := callsIn(f, suffix, false)
	if depth == 0 {
		return out
	}
	for _, b := range f.Blocks {
		for _, ins := range b.Instrs {
			ci, ok := ins.(ssa.CallInstruction)
			if !ok {
				continue
			}
			cal := ci.Common().StaticCallee()
			if cal == nil || !inRepo(cal) || cal == f || strings.HasSuffix(SSAFuncName(cal), suffix) {
				continue
			}
			inner := callsThrough(cal, suffix, depth-1)
			if len(inner) == 0 {
				continue
			}
			all := true
			for _, ret := range successReturns(cal) {
				dom := false
				for _, ic := range inner {
					if instrDominates(ic, ret) {
						dom = true
					}
				}
				if !dom {
					all = false
				}
			}
			if all {
				out = append(out, ci)
			}
		}
	}
	return out
}

// orderedInside: in f or in one of its helpers, a call to `first` never runs after a call to `second`.
func violatesOrder(f *ssa.Function, first, second string, depth int) (ssa.CallInstruction, bool) {
	firsts := callsThrough(f, first, depth)
	seconds := callsThrough(f, second, depth)
	for _, o := range firsts {
		for _, s := range seconds {
			if o != s && instrReaches(s, o) && !instrDominates(o, s) {
				return o, true
			}
		}
	}
	// both inside the same helper: check there
	if depth > 0 {
		for _, b := range f.Blocks {
			for _, ins := range b.Instrs {
				if ci, ok := ins.(ssa.CallInstruction); ok {
					if cal := ci.Common().StaticCallee(); cal != nil && inRepo(cal) && cal != f {
						if len(callsThrough(cal, first, depth-1)) > 0 && len(callsThrough(cal, second, depth-1)) > 0 {
							if bad, v := violatesOrder(cal, first, second, depth-1); v {
								return bad, true
							}
						}
					}
				}
			}
		}
	}
	return nil, false
}

// inNonNilArm: the block is in the arm of a dominating branch where v is known to be non-nil.
func inNonNilArm(b *ssa.BasicBlock, v ssa.Value) bool {
	for d := b.Idom(); d != nil; d = d.Idom() {
		if len(d.Instrs) == 0 {
			continue
		}
		ifi, ok := d.Instrs[len(d.Instrs)-1].(*ssa.If)
		if !ok {
			continue
		}
		bo, ok := ifi.Cond.(*ssa.BinOp)
		if !ok || (bo.X != v && bo.Y != v) {
			continue
		}
		arm := -1
		switch bo.Op {
		case token.NEQ:
			arm = 0
		case token.EQL:
			arm = 1
		}
		if arm < 0 {
			continue
		}
		s := d.Succs[arm]
		if len(s.Preds) == 1 && (s == b || s.Dominates(b)) {
			return true
		}
	}
	return false
}

// freshError: the value is a newly created or package-level error (certainly non-nil).
func freshError(v ssa.Value) bool {
	switch x := v.(type) {
	case *ssa.Call:
		if cal := x.Call.StaticCallee(); cal != nil && cal.Pkg != nil {
			p, n := cal.Pkg.Pkg.Path(), cal.Name()
			return p == "fmt" && n == "Errorf" || p == "errors" && n == "New"
		}
	case *ssa.MakeInterface:
		return true
	case *ssa.UnOp:
		_, isG := x.X.(*ssa.Global)
		return isG
	}
	return false
}

// controlCondsDeep: controlConds plus the conditions of the branch blocks that jump directly to b
// (the parts of a short-circuit a || b, a && b).
func controlCondsDeep(b *ssa.BasicBlock) []ssa.Value {
	out := controlConds(b)
	for _, p := range b.Preds {
		if len(p.Instrs) == 0 {
			continue
		}
		if ifi, ok := p.Instrs[len(p.Instrs)-1].(*ssa.If); ok {
			out = append(out, ifi.Cond)
		}
	}
	return out
}

package chk

import "sort"

// Registry maps a property id to its rule set.
var Registry = map[string]func(*Ctx, *Report){}

func RegistryKeys() []string {
	var k []string
	for s := range Registry {
		k = append(k, s)
	}
	sort.Strings(k)
	return k
}

package chk

// Generic structural lints (each with a positive fixture in checker/fixture): mistakes whose shape is visible in the
// code whatever the surrounding logic.

import (
	"fmt"
	"go/ast"
	"go/token"
	"go/types"
	"strings"

	"golang.org/x/tools/go/ssa"
)

var debugLint = false

func libFuncs(c *Ctx, scope func(*ssa.Function) bool) []*ssa.Function {
	var out []*ssa.Function
	for _, f := range c.RepoFuncs(nil) {
		if f.Synthetic != "" || strings.HasSuffix(c.Fset.Position(f.Pos()).Filename, "_test.go") {
			continue
		}
		if scope != nil && !scope(f) {
			continue
		}
		out = append(out, f)
	}
	return out
}

// ruleMakeThenAppend (L-MAKEAPPEND) — a slice made with a non-zero LENGTH (not capacity) and then only appended to
// holds that many zero elements in front of the appended ones.
func ruleMakeThenAppend(c *Ctx, r *Report, scope func(*ssa.Function) bool) int {
	n := 0
	for _, f := range libFuncs(c, scope) {
		for _, b := range f.Blocks {
			for _, ins := range b.Instrs {
				mk, ok := ins.(*ssa.MakeSlice)
				if !ok {
					continue
				}
				if k, isC := mk.Len.(*ssa.Const); isC && k.Value != nil && k.Value.String() == "0" {
					continue
				}
				// where does it go: a field / local
				for _, ref := range *mk.Referrers() {
					st, ok := ref.(*ssa.Store)
					if !ok || st.Val != ssa.Value(mk) {
						continue
					}
					n++
					appended, indexed := false, false
					for _, b2 := range f.Blocks {
						for _, i2 := range b2.Instrs {
							switch x := i2.(type) {
							case *ssa.Call:
								if bi, ok := x.Call.Value.(*ssa.Builtin); ok && bi.Name() == "append" && len(x.Call.Args) > 0 {
									if ld, ok := x.Call.Args[0].(*ssa.UnOp); ok && sameAddr(ld.X, st.Addr) && (b.Dominates(b2) || reaches(b, b2)) {
										appended = true
									}
								}
								if bi, ok := x.Call.Value.(*ssa.Builtin); ok && bi.Name() == "copy" {
									if ld, ok := stripSlice(x.Call.Args[0]).(*ssa.UnOp); ok && sameAddr(ld.X, st.Addr) {
										indexed = true
									}
								}
							case *ssa.IndexAddr:
								if ld, ok := x.X.(*ssa.UnOp); ok && sameAddr(ld.X, st.Addr) {
									indexed = true
								}
							case *ssa.Slice:
								if ld, ok := x.X.(*ssa.UnOp); ok && sameAddr(ld.X, st.Addr) {
									indexed = true
								}
							case *ssa.Range:
								if ld, ok := x.X.(*ssa.UnOp); ok && sameAddr(ld.X, st.Addr) {
									indexed = true
								}
							}
						}
					}
					if appended && !indexed {
						r.Bad("L-MAKEAPPEND", fmt.Sprintf("%s:%s", SSAFuncName(f), srcOf(f, mk.Pos(), "make", "make")), c.Pos(mk.Pos()),
							"the slice is made with a non-zero length and then only appended to: it starts with that many zero elements (make(T, 0, n) was meant)")
					}
				}
			}
		}
	}
	return n
}

func stripSlice(v ssa.Value) ssa.Value {
	for {
		s, ok := v.(*ssa.Slice)
		if !ok {
			return v
		}
		v = s.X
	}
}

// ruleNarrowAccumulator (W-NARROW-ACC) — a sum accumulated in a loop in 32 bits or fewer and widened only afterwards
// wraps before the widening (running durations, sizes, offsets).
func ruleNarrowAccumulator(c *Ctx, r *Report, rule string, scope func(*ssa.Function) bool) int {
	n := 0
	for _, f := range libFuncs(c, scope) {
		for _, l := range naturalLoops(f) {
			for _, ins := range l.header.Instrs {
				phi, ok := ins.(*ssa.Phi)
				if !ok {
					break
				}
				if !isIntType(phi.Type()) || typeBits(phi.Type()) > 32 {
					continue
				}
				// accumulator: an edge from inside the loop is phi + x with x non-constant
				acc := false
				for i, e := range phi.Edges {
					if !l.blocks[l.header.Preds[i]] {
						continue
					}
					if bo, ok := e.(*ssa.BinOp); ok && bo.Op == token.ADD && (bo.X == ssa.Value(phi) || bo.Y == ssa.Value(phi)) {
						other := bo.Y
						if bo.Y == ssa.Value(phi) {
							other = bo.X
						}
						if _, isC := other.(*ssa.Const); !isC {
							acc = true
						}
					}
				}
				if !acc {
					continue
				}
				n++
				// widened afterwards?
				widened := false
				var at token.Pos
				var visit func(v ssa.Value, d int)
				visit = func(v ssa.Value, d int) {
					if d > 2 {
						return
					}
					for _, ref := range *v.Referrers() {
						switch x := ref.(type) {
						case *ssa.Convert:
							if isIntType(x.Type()) && typeBits(x.Type()) > typeBits(phi.Type()) && typeBits(x.Type()) >= 64 {
								widened = true
								at = x.Pos()
							}
						case *ssa.BinOp:
							if x.Op == token.ADD && d == 0 {
								visit(x, d+1)
							}
						}
					}
				}
				visit(phi, 0)
				if widened {
					r.BadOnce(rule, fmt.Sprintf("%s:%s", SSAFuncName(f), phi.Comment), c.Pos(at),
						fmt.Sprintf("a running sum is kept in a %d-bit variable and widened to 64 bits only when used: it wraps at 2^%d before the widening", typeBits(phi.Type()), typeBits(phi.Type())))
				}
			}
		}
	}
	return n
}

// ruleSiblingSlices (L-SIBLING) — copy-paste between twin lists (…L0/…L1, …S0/…S1): a loop that writes the
// elements of one slice field of a structure decides with the elements of the twin field only.
func ruleSiblingSlices(c *Ctx, r *Report, scope func(*ssa.Function) bool) int {
	n := 0
	elemField := func(v ssa.Value) (owner, field string, ok bool) {
		// address or value of an element (or a field of an element) of T.F where F is a slice field
		for d := 0; d < 6 && v != nil; d++ {
			switch x := v.(type) {
			case *ssa.FieldAddr:
				v = x.X
			case *ssa.UnOp:
				if fa, isFa := x.X.(*ssa.FieldAddr); isFa {
					if fv := fieldVar(fa.X.Type(), fa.Field); fv != nil {
						if _, isSl := fv.Type().Underlying().(*types.Slice); isSl {
							return typeName(fa.X.Type()), fv.Name(), true
						}
					}
				}
				v = x.X
			case *ssa.IndexAddr:
				v = x.X
			case *ssa.Field:
				v = x.X
			default:
				return "", "", false
			}
		}
		return "", "", false
	}
	twin := func(a, b string) bool {
		if len(a) != len(b) || a == b || len(a) < 2 {
			return false
		}
		return a[:len(a)-1] == b[:len(b)-1] && a[len(a)-1] >= '0' && a[len(a)-1] <= '9' && b[len(b)-1] >= '0' && b[len(b)-1] <= '9'
	}
	condReads := func(cond ssa.Value) map[string]bool {
		out := map[string]bool{}
		var visit func(v ssa.Value, d int)
		visit = func(v ssa.Value, d int) {
			if d > 4 || v == nil {
				return
			}
			switch x := v.(type) {
			case *ssa.UnOp:
				if ia := elementAddr(x.X); ia != nil {
					if o, fl, ok := elemField(ia.X); ok {
						out[o+"."+fl] = true
					}
				}
				visit(x.X, d+1)
			case *ssa.BinOp:
				visit(x.X, d+1)
				visit(x.Y, d+1)
			case *ssa.Field:
				visit(x.X, d+1)
			}
		}
		visit(cond, 0)
		return out
	}
	for _, f := range libFuncs(c, scope) {
		seen := map[string]bool{}
		for _, b := range f.Blocks {
			for _, ins := range b.Instrs {
				st, ok := ins.(*ssa.Store)
				if !ok {
					continue
				}
				ia := elementAddr(st.Addr)
				if ia == nil {
					continue
				}
				wo, wf, ok := elemField(ia.X)
				if !ok {
					continue
				}
				w := wo + "." + wf
				n++
				for _, cond := range controlConds(b) {
					rd := condReads(cond)
					if rd[w] || len(rd) == 0 {
						continue
					}
					for k := range rd {
						ro, rf := k[:strings.Index(k, ".")], k[strings.Index(k, ".")+1:]
						if ro == wo && twin(rf, wf) {
							key := fmt.Sprintf("%s:%s<-%s", SSAFuncName(f), w, k)
							if !seen[key] {
								seen[key] = true
								r.Bad("L-SIBLING", key, c.Pos(cond.Pos()),
									fmt.Sprintf("an element of %s is filled under a condition that looks at the element of its twin %s and not at its own: copy-paste between the two lists", w, k))
							}
						}
					}
				}
			}
		}
	}
	return n
}

// elementAddr: the IndexAddr an address is derived from through field addresses.
func elementAddr(v ssa.Value) *ssa.IndexAddr {
	for d := 0; d < 4 && v != nil; d++ {
		switch x := v.(type) {
		case *ssa.IndexAddr:
			return x
		case *ssa.FieldAddr:
			v = x.X
		default:
			return nil
		}
	}
	return nil
}

// ruleReturnsParam (R3-RET) — a Decode*/Parse* function does not return one of its own pointer parameters as the
// decoded value: the caller's variable (a loop variable!) and the result would be the same object.
func ruleReturnsParam(c *Ctx, r *Report, pkgs map[string]bool) int {
	n := 0
	for _, f := range c.RepoFuncs(IsLib) {
		if f.Synthetic != "" || f.Pkg == nil || !pkgs[f.Pkg.Pkg.Name()] || f.Parent() != nil || f.Signature.Recv() != nil {
			continue
		}
		if strings.HasSuffix(c.Fset.Position(f.Pos()).Filename, "_test.go") {
			continue
		}
		nm := f.Name()
		if !(strings.HasPrefix(nm, "Decode") || strings.HasPrefix(nm, "Parse")) {
			continue
		}
		n++
		for _, b := range f.Blocks {
			for _, ins := range b.Instrs {
				ret, ok := ins.(*ssa.Return)
				if !ok {
					continue
				}
				for _, rv := range ret.Results {
					v := rv
					for d := 0; d < 4; d++ {
						if mi, ok := v.(*ssa.MakeInterface); ok {
							v = mi.X
							continue
						}
						if ci, ok := v.(*ssa.ChangeInterface); ok {
							v = ci.X
							continue
						}
						break
					}
					if p, ok := v.(*ssa.Parameter); ok {
						if _, isPtr := p.Type().Underlying().(*types.Pointer); isPtr {
							r.Bad("R3-RET", SSAFuncName(f), c.Pos(ret.Pos()), "the decoder returns its own parameter "+p.Name()+" as the decoded value: successive results (e.g. over a loop variable) are one and the same object")
						}
					}
				}
			}
		}
	}
	return n
}

// ruleDeadRange (L-NILRANGE) — a loop ranges over a field that was set to nil just before (the saved copy was meant).
func ruleDeadRange(c *Ctx, r *Report, scope func(*ssa.Function) bool) int {
	n := 0
	for _, f := range libFuncs(c, scope) {
		for _, b := range f.Blocks {
			for _, ins := range b.Instrs {
				// range over a slice compiles to len(x) + index loop; look for len(load field) and Range
				var src ssa.Value
				switch x := ins.(type) {
				case *ssa.Call:
					if bi, ok := x.Call.Value.(*ssa.Builtin); ok && bi.Name() == "len" && len(x.Call.Args) == 1 {
						src = x.Call.Args[0]
					}
				case *ssa.Range:
					src = x.X
				}
				ld, ok := src.(*ssa.UnOp)
				if !ok || ld.Op != token.MUL {
					continue
				}
				if _, isFa := ld.X.(*ssa.FieldAddr); !isFa {
					continue
				}
				n++
				// the latest dominating store to the same field
				var last *ssa.Store
				for _, b2 := range f.Blocks {
					for _, i2 := range b2.Instrs {
						st, ok := i2.(*ssa.Store)
						if !ok || !sameAddr(st.Addr, ld.X) {
							continue
						}
						lb := ld.Block()
						if b2 == lb && instrBefore(st, ld) || b2 != lb && b2.Dominates(lb) {
							if last == nil || last.Block().Dominates(b2) && last.Block() != b2 || last.Block() == b2 && instrBefore(last, st) {
								last = st
							}
						} else if b2 != lb && reaches(b2, lb) {
							last = nil // another store may intervene on some path: undecided, say nothing
							goto next
						}
					}
				}
				if debugLint {
					fmt.Println("DEADRANGE", SSAFuncName(f), last != nil)
				}
				if last != nil {
					if k, isC := last.Val.(*ssa.Const); isC && k.Value == nil {
						r.BadOnce("L-NILRANGE", fmt.Sprintf("%s:%s", SSAFuncName(f), sliceTextOfLoad(c, f, ld)), c.Pos(ins.Pos()),
							"the loop runs over a field that was set to nil just before: it never executes (the saved copy was meant)")
					}
				}
			next:
			}
		}
	}
	return n
}

func sliceTextOfLoad(c *Ctx, f *ssa.Function, ld *ssa.UnOp) string {
	if fa, ok := ld.X.(*ssa.FieldAddr); ok {
		if fv := fieldVar(fa.X.Type(), fa.Field); fv != nil {
			return "(" + typeName(fa.X.Type()) + ")." + fv.Name()
		}
	}
	return "field"
}

// ruleIneffectiveRangeAssign (L-RANGEVAL) — inside `for _, v := range xs`, an assignment to v that is not read
// afterwards in the body changes nothing (xs[i] = … was meant).
func ruleIneffectiveRangeAssign(c *Ctx, r *Report, scope func(*ssa.Function) bool) int {
	n := 0
	seenDecl := map[*ast.FuncDecl]bool{}
	for _, f := range libFuncs(c, scope) {
		top := f
		for top.Parent() != nil {
			top = top.Parent()
		}
		obj, ok := top.Object().(*types.Func)
		if !ok {
			continue
		}
		decl, p := c.Decl(obj)
		if decl == nil || decl.Body == nil || seenDecl[decl] {
			continue
		}
		seenDecl[decl] = true
		ast.Inspect(decl.Body, func(nd ast.Node) bool {
			rs, ok := nd.(*ast.RangeStmt)
			if !ok || rs.Value == nil || rs.Tok != token.DEFINE {
				return true
			}
			vid, ok := rs.Value.(*ast.Ident)
			if !ok || vid.Name == "_" {
				return true
			}
			vobj := p.TypesInfo.Defs[vid]
			if vobj == nil {
				return true
			}
			n++
			// assignments `v = …` in the body, and the position of the last read of v
			var assigns []*ast.AssignStmt
			lastRead := token.NoPos
			ast.Inspect(rs.Body, func(m ast.Node) bool {
				switch x := m.(type) {
				case *ast.AssignStmt:
					for _, l := range x.Lhs {
						if id, ok := l.(*ast.Ident); ok && p.TypesInfo.Uses[id] == vobj && x.Tok == token.ASSIGN {
							assigns = append(assigns, x)
						}
					}
				case *ast.Ident:
					if p.TypesInfo.Uses[x] == vobj {
						// is it an assignment target?
						isLhs := false
						for _, a := range assigns {
							for _, l := range a.Lhs {
								if l == ast.Expr(x) {
									isLhs = true
								}
							}
						}
						if !isLhs && x.Pos() > lastRead {
							lastRead = x.Pos()
						}
					}
				case *ast.UnaryExpr:
					if x.Op == token.AND {
						if id, ok := x.X.(*ast.Ident); ok && p.TypesInfo.Uses[id] == vobj {
							lastRead = token.Pos(1 << 40) // address taken: anything goes
						}
					}
				}
				return true
			})
			_ = lastRead
			for _, a := range assigns {
				// the variable is a copy of the element: assigning a slice / pointer / struct to it never reaches the ranged
				// collection. (Scalars that are adjusted and then used are a legitimate idiom.)
				t := vobj.Type().Underlying()
				switch t.(type) {
				case *types.Slice, *types.Pointer, *types.Struct, *types.Map:
					r.Bad("L-RANGEVAL", fmt.Sprintf("%s:%s", FuncName(obj), vid.Name), c.Pos(a.Pos()),
						"the range value variable "+vid.Name+" (a copy of the element) is assigned a new slice/pointer/struct: the ranged collection still holds the old element (xs[i] = … was meant)")
				}
			}
			return true
		})
	}
	return n
}

package chk

import (
	"fmt"
	"strings"

	"golang.org/x/tools/go/ssa"
)

func init() { Registry["C01"] = checkC01 }

// C01 — decode then encode is lossless outside reserved fields (structural part).
func checkC01(c *Ctx, r *Report) {
	r.Explanation = "W-DE: for every registered SR box decoder, the abstract interpreter executes the decoder on a symbolic body under every configuration of its discriminants " +
		"(version, flag bits, counts compared with constants, header length 8/16, presence predicates), then executes the box's EncodeSW on the decoded abstract structure and compares, bit by bit, " +
		"what is written with what was read (bit-provenance domain: every written bit must be the same input bit the decoder kept there, or a constant where the decoder discards). " +
		"W-DR: the discarded/constant runs must be on the committed don't-care list (wire_tables.go). " +
		"L-NARROWSHIFT: no left shift by a constant is computed in an 8- or 16-bit type and only then widened (bit packing of the loudness boxes). T-TYPEDCHILD: a function that stores a non-nil value into a typed child pointer (the fields AddChild sets) also updates Children of the same box or calls AddChild. T-ADDCHILD: every AddChild method of a type with a Children field stores Children on every path that returns (Encode walks Children; a child only remembered in a typed field is lost). W-ORDER (also over the boxes and descriptors W-DE tables as irregular: esds descriptors, hdlr, mime, senc, sgpd): for every struct type whose fields one function fills from bits.SliceReader calls and another writes through bits.SliceWriter calls, no two fields are filled in one order on every path that fills both and written in the opposite order, and each field is read and written with the same set of widths (8/16/24/32/64 bits, n bits, bytes, zero-terminated string). L-LOCKSTEP: a counter field that the code increments together with an append to a sibling list (dref/stsd entry count and Children) is never incremented on a path that does not append. O-CLEAN: a trial parser (bool result; SencBox.parseAndFillSamples, run once per candidate IV size) resets every receiver field it grows with append on every path that may return false, so a failed attempt leaves nothing for the next one to append after. O-SIZECHK: a box decoder that rejects when the declared size differs from a computed one does so on every path that returns a box (a check performed by one arm only lets the other accept trailing bytes it then drops on re-encoding). O-STICKY: a box decoder that reads from a bits.SliceReader does not return a decoded box with a literal nil error unless the reader's accumulated error was tested, the declared size is validated against what is read, children are decoded by the container helpers, or the payload is one block parsed by an error-returning callee (W-DE presumes the bytes were there: a truncated box accepted with zero-filled fields re-encodes to other bytes). Decides that decoder and encoder agree on which field sits in which wire slot, with which width, under which guard, in which order, and that every kept bit is written back; " +
		"does not decide boxes in the irregular table, numeric loop bounds, children contents (each child is its own obligation), or fixed-point-ness of normalisations."
	wireAssumptions(r)
	ruleWDE(c, r)
	for _, sp := range mp4Codecs {
		reportCodecPart(r, c, analyseCodec(c, sp), "layout")
	}
	ruleNarrowShift(c, r, func(f *ssa.Function) bool { return strings.HasPrefix(SSAFuncName(f), "mp4.") })
	r.OK("L-NARROWSHIFT", "scope", "", "no left shift is computed in 8 or 16 bits and only then widened in package mp4 (expected count zero; fixture-backed)")
	requireFixture(r, "L-NARROWSHIFT", "packWrong", func(fc *Ctx, s *Report) { ruleNarrowShift(fc, s, nil) })
	if n := ruleTypedChildStores(c, r); n < 2 {
		r.Undecided("T-TYPEDCHILD", "scope", "", "no store to a typed child pointer outside AddChild found")
	}
	if n := ruleAddChildAppends(c, r); n < 25 {
		r.Undecided("T-ADDCHILD", "scope", "", fmt.Sprintf("only %d AddChild methods on types with Children found", n))
	}
	if n := ruleFieldOrder(c, r, "W-ORDER", nil); n < 50 {
		r.Undecided("W-ORDER", "scope", "", fmt.Sprintf("only %d reader/writer pairs with two or more common fields found", n))
	}
	if n := ruleAppendAlias(c, r, func(f *ssa.Function) bool { return strings.HasPrefix(SSAFuncName(f), "mp4.") }); n < 5 {
		r.Undecided("L-APPENDALIAS", "scope", "", fmt.Sprintf("only %d appends to a truncated slice found in package mp4", n))
	}
	requireFixture(r, "L-APPENDALIAS", "insertBroken1", func(fc *Ctx, s *Report) { ruleAppendAlias(fc, s, nil) })
	requireFixture(r, "L-APPENDALIAS", "insertBroken2", func(fc *Ctx, s *Report) { ruleAppendAlias(fc, s, nil) })
	requireFixtureAccepted(r, "L-APPENDALIAS", "insertRight", func(fc *Ctx, s *Report) { ruleAppendAlias(fc, s, nil) })
	requireFixtureAccepted(r, "L-APPENDALIAS", "deleteRight", func(fc *Ctx, s *Report) { ruleAppendAlias(fc, s, nil) })
	if n := ruleLockstep(c, r, map[string]bool{"DrefBox": true, "StsdBox": true}); n < 2 {
		r.Undecided("L-LOCKSTEP", "scope", "", "the pairs DrefBox.EntryCount ~ Children and StsdBox.SampleCount ~ Children were not inferred")
	}
	requireFixture(r, "L-LOCKSTEP", "stepper.alone", func(fc *Ctx, s *Report) { ruleLockstep(fc, s, nil) })
	if n := ruleTrialCleanup(c, r); n < 1 {
		r.Undecided("O-CLEAN", "scope", "", "no trial parser (bool result, receiver fields grown with append) found; SencBox.parseAndFillSamples expected")
	}
	if n := ruleSizeCheckEveryPath(c, r); n < 12 {
		r.Undecided("O-SIZECHK", "scope", "", fmt.Sprintf("only %d decoders that validate the declared size by equality found", n))
	}
	if n := ruleStickyError(c, r); n < 70 {
		r.Undecided("O-STICKY", "scope", "", "box decoders that read from a bits.SliceReader not found")
	}
}

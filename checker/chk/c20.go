package chk

func init() { Registry["C20"] = checkC20 }

// C20 — independent objects usable from concurrent goroutines.
// Decided: absence of hidden shared mutable state (R2) — a necessary condition
// for race freedom of independent objects; thorough adds R4 (input-alias mutation).
func checkC20(c *Ctx, r *Report) {
	r.Explanation = "R2 (who-may-write package-level state): every SSA store / map update / copy / delete whose address is rooted at a package-level variable " +
		"(directly, through a pointer/slice/map header loaded from it, or through a parameter that receives such an address) must be in an init function or in the registry mutators " +
		"mp4.SetBoxDecoder / mp4.RemoveBoxDecoder; no package-level variable of a sync/atomic type. Decides absence of hidden shared mutable state, a necessary condition of C20; " +
		"R4: no library function calls a storage-sharing method ((*bytes.Buffer).Next/Bytes, (*bufio.Reader).Peek) on the io.Reader it was given, so decoded structures do not alias the caller's input; does not decide races inside the standard library or schedules."
	r.Assume("call graph = VTA over CHA (x/tools v0.29.0); reflection and unsafe writes are not modelled (unsafe is used once, read-only, in avc/annexb.go)")
	r.Assume("address escape through interface method calls into non-repository code is not followed")
	ruleR2(c, r, map[string]bool{"mp4.SetBoxDecoder": true, "mp4.RemoveBoxDecoder": true})
	ruleNoReaderAliasing(c, r)
	requireFixture(r, "R4", "readBodyAliasing", func(fc *Ctx, s *Report) { ruleNoReaderAliasing(fc, s) })
}

package chk

import (
	"fmt"
	"strings"

	"golang.org/x/tools/go/ssa"
)

func init() { Registry["C20"] = checkC20 }

// C20 — independent objects usable from concurrent goroutines.
// Decided: absence of hidden shared mutable state (R2) — a necessary condition
// for race freedom of independent objects; thorough adds R4 (input-alias mutation).
func checkC20(c *Ctx, r *Report) {
	r.Explanation = "R2-SHARE: no library function outside init stores a slice, map or pointer loaded from a package-level variable (or a struct copied out of one that holds such references) into an object: objects built from a template or a precomputed table would share one backing array. O-REUSE: no library function re-fills a struct field or a parameter in place with append(x[:0], …) (the storage may be decoder input or shared). O-APPENDPARAM: no exported library function appends to a slice parameter (with spare capacity the caller's backing array is written behind the slice: key material laid out as iv|key) except the listed append-style API AppendProtectRange. R2 (who-may-write package-level state): every SSA store / map update / copy / delete whose address is rooted at a package-level variable " +
		"(directly, through a pointer/slice/map header loaded from it, or through a parameter that receives such an address) must be in an init function or in the registry mutators " +
		"mp4.SetBoxDecoder / mp4.RemoveBoxDecoder; no package-level variable of a sync/atomic type. Decides absence of hidden shared mutable state, a necessary condition of C20; " +
		"R3: exported Decode*/Parse* functions store only into memory they allocated, never through a pointer parameter; R3-RET: no decoder returns its own pointer parameter; L-RANGEVAL: no range value variable (a copy) is assigned a new slice/pointer/struct, so results that are meant to be fresh copies do not silently stay sub-slices of the input; R3-OBS: the ~490 Size/Info/String/Type/Payload/Get*/Is*/Has* methods do not store through their receiver (two accepted, idempotent exceptions), so objects that are only looked at can be shared; O-OWN: elements of a slice held in a struct field are written only by a method of the type, a decoder/constructor named after it, or the function that made the slice (two listed exceptions); O-CAP: the sub-slices of the input that the slice reader of package bits hands out (ReadBytes, RemainingBytes) have their capacity limited to their length, so an append by the owner of a decoded box re-allocates instead of writing into the shared input; R3-BYTES: a function of package mp4 writes into a []byte parameter only where the frozen table lists the pair as an in-place buffer; O-COPY: a byte-slice field that is grown with append is never assigned a caller's slice directly (except MdatBox.SetData, whose documented contract is to adopt it); R4: no library function calls a storage-sharing method ((*bytes.Buffer).Next/Bytes, (*bufio.Reader).Peek) on the io.Reader it was given, so decoded structures do not alias the caller's input; does not decide races inside the standard library or schedules."
	r.Assume("call graph = VTA over CHA (x/tools v0.29.0); reflection and unsafe writes are not modelled (unsafe is used once, read-only, in avc/annexb.go)")
	r.Assume("address escape through interface method calls into non-repository code is not followed")
	ruleR2(c, r, map[string]bool{"mp4.SetBoxDecoder": true, "mp4.RemoveBoxDecoder": true})
	ruleNoReaderAliasing(c, r)
	ruleTencReadOnly(c, r)
	ruleReturnsParam(c, r, map[string]bool{"avc": true, "hevc": true, "sei": true, "aac": true, "av1": true, "mp4": true})
	requireFixture(r, "R3-RET", "DecodeAliasing", func(fc *Ctx, s *Report) { ruleReturnsParam(fc, s, map[string]bool{"mp4": true}) })
	if n := ruleIneffectiveRangeAssign(c, r, func(f *ssa.Function) bool { return true }); n < 200 {
		r.Undecided("L-RANGEVAL", "scope", "", "too few range loops found")
	} else {
		r.OK("L-RANGEVAL", "scope", "", fmt.Sprintf("%d range loops with a value variable: none assigns a new slice/pointer/struct to the copy", n))
	}
	requireFixture(r, "L-RANGEVAL", "rangeValAssign", func(fc *Ctx, s *Report) { ruleIneffectiveRangeAssign(fc, s, nil) })
	ruleGlobalShared(c, r, libPrefix, nil)
	r.OK("R2-SHARE", "scope", "", "no library function outside init stores a reference loaded from a package-level variable into an object (expected count zero; the fixture below keeps the rule alive)")
	requireFixture(r, "R2-SHARE", "NewSharedHolder", func(fc *Ctx, s *Report) { ruleGlobalShared(fc, s, nil, nil) })
	ruleReuseFieldStorage(c, r, libPrefix)
	r.OK("O-REUSE", "scope", "", "no library function re-fills a struct field or a parameter in place with append(x[:0], …) (expected count zero; fixture-backed)")
	requireFixture(r, "O-REUSE", "uuidHolder.SetUUID", func(fc *Ctx, s *Report) { ruleReuseFieldStorage(fc, s, nil) })
	if n := ruleAppendToParam(c, r, libPrefix, appendParamAllowed); n < 1 {
		r.Undecided("O-APPENDPARAM", "scope", "", "no append to a slice parameter of an exported library function found (AppendProtectRange expected)")
	}
	requireFixture(r, "O-APPENDPARAM", "PadIV", func(fc *Ctx, s *Report) { ruleAppendToParam(fc, s, nil, nil) })
	if n := ruleObserversPure(c, r, map[string]bool{"mp4": true, "avc": true, "hevc": true, "sei": true, "aac": true, "av1": true}); n < 400 {
		r.Undecided("R3-OBS", "scope", "", fmt.Sprintf("only %d observers found", n))
	}
	if n := ruleElementOwners(c, r, map[string]string{
		"mp4.EncryptFragment -> SaioBox.Offset": "the saio box is created by EncryptFragment for this fragment and its offset is filled in once the moof layout is known",
		"mp4.DecodeSsixSR -> SubSegment.Ranges": "sub-structure of the ssix box being decoded",
	}); n < 40 {
		r.Undecided("O-OWN", "scope", "", fmt.Sprintf("only %d element writes into field-held slices found", n))
	}
	if n := ruleReaderResultCapacity(c, r, func(f *ssa.Function) bool { return strings.HasPrefix(SSAFuncName(f), "bits.") }); n < 2 {
		r.Undecided("O-CAP", "scope", "", "the sub-slice results of FixedSliceReader.ReadBytes / RemainingBytes were not found")
	}
	requireFixture(r, "O-CAP", "takeWrong", func(fc *Ctx, s *Report) { ruleReaderResultCapacity(fc, s, nil) })
	if n := ruleByteParamsReadOnly(c, r, byteParamWriters); n < 5 {
		r.Undecided("R3-BYTES", "scope", "", fmt.Sprintf("only %d writing (function, []byte parameter) pairs found in package mp4", n))
	}
	if n := ruleNoAdoptThenAppend(c, r, "O-COPY"); n < 4 {
		r.Undecided("O-COPY", "scope", "", fmt.Sprintf("only %d appended byte-slice fields found", n))
	}
	if n := rulePureInputs(c, r, map[string]bool{"avc": true, "hevc": true, "sei": true, "aac": true, "av1": true, "mp4": true}); n < 250 {
		r.Undecided("R3", "scope", "", fmt.Sprintf("only %d decoders found", n))
	}
	requireFixture(r, "R4", "readBodyAliasing", func(fc *Ctx, s *Report) { ruleNoReaderAliasing(fc, s) })
}

package chk

// Exploration of discriminant configurations and the layout comparators
// W-DE (decode vs encode), W-SE (Size vs encode), W-DD (decoder twins), W-EE (encoder twins).

import (
	"fmt"
	"go/types"
	"sort"
	"strings"
)

type cfgT map[string][]known

func (c cfgT) clone() cfgT {
	n := cfgT{}
	for k, v := range c {
		n[k] = append([]known(nil), v...)
	}
	return n
}
func (c cfgT) String() string {
	var ks []string
	for k, v := range c {
		for _, kn := range v {
			ks = append(ks, fmt.Sprintf("%s[%d:%d]=%#x", k, kn.lo, kn.lo+kn.n, kn.val))
		}
	}
	sort.Strings(ks)
	return "{" + strings.Join(ks, ",") + "}"
}

type explorer struct {
	c        *Ctx
	doms     *domains
	maxCfg   int
	fullBits int // slices of at most this many bits are enumerated over their full range
	runs     int
	other    map[string]bool
}

func newExplorer(c *Ctx) *explorer {
	e := &explorer{c: c, doms: &domains{vals: map[string]map[uint64]bool{}}, maxCfg: 6000, fullBits: 3, other: map[string]bool{}}
	if c.Tier == "thorough" {
		e.maxCfg = 60000
		e.fullBits = 5
	}
	return e
}

// outcome of one configuration
type cfgOutcome struct {
	cfg      string
	rejected bool
	problems []string // disagreements (violations)
	irregs   []string // constructs the interpreter does not model
	dontcare []string
	nItems   int
	facts    map[string]string
}

// explore enumerates configurations depth-first. run executes everything for one configuration and
// may panic with need{} to request a further discriminant.
func (ex *explorer) explore(run func(in *Interp) *cfgOutcome) (outs []*cfgOutcome, err string) {
	for round := 0; round < 6; round++ {
		outs = nil
		expanded := map[string]int{}
		stack := []cfgT{{}}
		n := 0
		for len(stack) > 0 {
			cfg := stack[len(stack)-1]
			stack = stack[:len(stack)-1]
			n++
			ex.runs++
			if n > ex.maxCfg {
				return outs, fmt.Sprintf("configuration budget exceeded (%d)", ex.maxCfg)
			}
			out, nd := ex.runOne(cfg, run)
			if nd != nil {
				k := termKey(nd.atom, nd.lo, nd.n)
				for _, cnd := range nd.cands {
					if nd.atom.Fixed == nil {
						ex.doms.add(nd.atom, nd.lo, nd.n, cnd)
					}
				}
				if nd.atom.Fixed == nil {
					ex.doms.add(nd.atom, nd.lo, nd.n, 0)
					ex.doms.add(nd.atom, nd.lo, nd.n, 1)
				}
				if nd.n <= ex.fullBits {
					for v := uint64(0); v < 1<<uint(nd.n); v++ {
						ex.doms.add(nd.atom, nd.lo, nd.n, v)
					}
				}
				if nd.atom.Fixed == nil && nd.n >= 2 {
					mx := uint64(0)
					for v := range ex.doms.vals[k] {
						if v > mx {
							mx = v
						}
					}
					if mx+1 <= mask(nd.n) && !ex.doms.vals[k][mx+1] && !ex.other[k] {
						ex.doms.vals[k][mx+1] = true
						ex.other[k] = true
					}
				}
				var vals []uint64
				for v := range ex.doms.vals[k] {
					vals = append(vals, v)
				}
				if nd.atom.Fixed != nil {
					vals = append([]uint64(nil), nd.atom.Fixed...)
				}
				sort.Slice(vals, func(i, j int) bool { return vals[i] > vals[j] })
				expanded[k] = len(vals)
				for _, v := range vals {
					nc := cfg.clone()
					nc[nd.atom.Name] = append(nc[nd.atom.Name], known{nd.lo, nd.n, v})
					stack = append(stack, nc)
				}
				continue
			}
			out.cfg = cfg.String()
			outs = append(outs, out)
		}
		grew := false
		for k, sz := range expanded {
			if len(ex.doms.vals[k]) > sz {
				grew = true
			}
		}
		if !grew {
			return outs, ""
		}
	}
	return outs, ""
}

func (ex *explorer) runOne(cfg cfgT, run func(in *Interp) *cfgOutcome) (out *cfgOutcome, nd *need) {
	in := &Interp{c: ex.c, cfg: cfg, atoms: map[string]*Atom{}, doms: ex.doms}
	defer func() {
		if r := recover(); r != nil {
			switch x := r.(type) {
			case need:
				nd = &x
				out = nil
			case irregular:
				out = &cfgOutcome{irregs: []string{x.why}}
			default:
				panic(r)
			}
		}
	}()
	out = run(in)
	return out, nil
}

// ---------------------------------------------------------------------------

func (in *Interp) newHdr() *Obj {
	p := in.c.Pkg("mp4")
	tn, _ := p.Types.Scope().Lookup("BoxHeader").(*types.TypeName)
	o := in.newObj(tn.Type())
	o.F["Size"] = in.atom("hdr.Size", 64, true)
	o.F["Hdrlen"] = in.atom("hdr.Hdrlen", 62, false)
	in.atoms["hdr.Hdrlen"].Fixed = []uint64{8, 16}
	o.F["Name"] = &SliceV{Str: true, Len: cI(4), Ident: in.atom("hdr.Name", 32, true), Sym: true, Path: "hdr.Name"}
	return o
}

type decodeResult struct {
	obj      *Obj
	rets     []Val
	rejected bool
	trace    *Trace
}

func lastIsError(rets []Val) bool {
	if len(rets) == 0 {
		return false
	}
	if e, ok := rets[len(rets)-1].(ErrV); ok && e.NonNil {
		return true
	}
	return false
}

// runDecoder executes a box decoder (SR or reader flavour) on a fresh body stream.
func (in *Interp) runDecoder(fn *types.Func) *decodeResult {
	st := in.newStream(false, "body")
	hdr := in.newHdr()
	start := in.atom("startPos", 62, true)
	fr := &frame{pkg: in.c.Pkg("mp4"), env: map[types.Object]Val{}}
	in.panicked = false
	in.pendingBody = nil
	in.nWhile = 0
	v := in.callFunc(fr, fn, nil, []Val{hdr, start, st}, nil)
	if in.pendingBody != nil && len(st.T.Items) == 0 {
		// the reader-path decoder used the whole body as one blob
		st.T.add(in, Item{Kind: "bytes", W: in.mkBin("*", cI(8), in.pendingBody.Len, typInfo{64, true}), V: in.pendingBody})
	}
	in.pendingBody = nil
	res := &decodeResult{trace: st.T}
	if tv, ok := v.(*TupleV); ok {
		res.rets = tv.Vs
	} else {
		res.rets = []Val{v}
	}
	if in.panicked || lastIsError(res.rets) {
		res.rejected = true
		return res
	}
	if o, ok := res.rets[0].(*Obj); ok {
		res.obj = o
	} else {
		bail("decoder returned %s", showValShallow(res.rets[0]))
	}
	return res
}

// usedAtoms: names of atoms that reach the decoded object.
func usedAtoms(v Val) map[string]map[int]bool {
	out := map[string]map[int]bool{}
	seenO := map[*Obj]bool{}
	var visitE func(e *Expr)
	visitE = func(e *Expr) {
		var segs []Seg
		atomsOf(e, &segs)
		for _, s := range segs {
			if out[s.A.Name] == nil {
				out[s.A.Name] = map[int]bool{}
			}
			for i := 0; i < s.N; i++ {
				out[s.A.Name][s.Lo+i] = true
			}
		}
	}
	var visit func(v Val)
	visit = func(v Val) {
		switch x := v.(type) {
		case *Expr:
			visitE(x)
		case *Obj:
			if seenO[x] {
				return
			}
			seenO[x] = true
			for _, f := range x.F {
				visit(f)
			}
		case *SliceV:
			if x.Len != nil {
				visitE(x.Len)
			}
			if x.Ident != nil {
				visitE(x.Ident)
			}
			visit(x.Elem)
		}
	}
	visit(v)
	return out
}

// ---- flattening of traces into comparable node sequences

type bitSrc struct {
	atom string // "" => constant / don't-care
	bit  int
	c    byte // constant value (0/1) when atom == "" and !dc
	dc   bool // don't care (decoder side: skipped / discarded)
	op   string
}

type node struct {
	kind  string // bits | var | loop{ | }
	bits  []bitSrc
	desc  string // for var nodes: kind|width|identity ; for loops: bound
	pos   string
	notes []string
}

func (in *Interp) flatten(t *Trace, decoder bool, used map[string]map[int]bool, c *Ctx) []node {
	var out []node
	var curLoops []int
	emitLoops := func(ids []int, bounds []string) {
		// common prefix
		i := 0
		for i < len(curLoops) && i < len(ids) && curLoops[i] == ids[i] {
			i++
		}
		for j := len(curLoops) - 1; j >= i; j-- {
			out = append(out, node{kind: "}"})
		}
		for j := i; j < len(ids); j++ {
			out = append(out, node{kind: "loop{", desc: bounds[j]})
		}
		curLoops = append([]int(nil), ids...)
	}
	addBits := func(bs []bitSrc, pos string, note string) {
		if n := len(out); n > 0 && out[n-1].kind == "bits" {
			out[n-1].bits = append(out[n-1].bits, bs...)
			if note != "" {
				out[n-1].notes = append(out[n-1].notes, note)
			}
			return
		}
		nd := node{kind: "bits", bits: bs, pos: pos}
		if note != "" {
			nd.notes = []string{note}
		}
		out = append(out, nd)
	}
	for _, it := range t.Items {
		emitLoops(it.loopIDs, it.Loops)
		pos := c.Pos(it.Pos)
		wc, wconst := it.W.ConstI()
		switch {
		case it.Kind == "hdr":
			out = append(out, node{kind: "var", desc: "hdr|" + it.W.String(), pos: pos})
		case it.Kind == "int" && wconst:
			w := int(wc)
			bs := make([]bitSrc, w)
			if decoder {
				a := it.V.(*Expr)
				name := a.Segs[0].A.Name
				if eq, ok := in.assumedEq[name]; ok && len(used[name]) == 0 {
					// the value is not stored but is known to equal another quantity on accepted inputs
					ev := toBV(eq, w)
					for i := 0; i < w; i++ {
						bs[i] = srcOfBit(ev, w-1-i)
					}
					addBits(bs, pos, "")
					continue
				}
				for i := 0; i < w; i++ {
					// MSB first on the wire
					bit := w - 1 - i
					if used[name][bit] {
						bs[i] = bitSrc{atom: name, bit: bit}
					} else if kv, ok := in.knownBit(name, bit); ok {
						bs[i] = bitSrc{c: kv}
					} else {
						bs[i] = bitSrc{dc: true}
					}
				}
			} else {
				ev := toBV(it.V, w)
				for i := 0; i < w; i++ {
					bit := w - 1 - i
					bs[i] = srcOfBit(ev, bit)
				}
			}
			addBits(bs, pos, "")
		case it.Kind == "zero" && wconst:
			bs := make([]bitSrc, int(wc))
			for i := range bs {
				if decoder {
					bs[i] = bitSrc{dc: true}
				} else {
					bs[i] = bitSrc{c: 0}
				}
			}
			addBits(bs, pos, it.Note)
		default:
			if in.isZeroWidth(it.W) {
				continue
			}
			id := ""
			switch v := it.V.(type) {
			case *SliceV:
				id = identOf(v).String()
			case *Obj:
				id = "box(" + v.Path + ")"
			case *Expr:
				id = v.String()
			case nil:
				id = "-"
			}
			kind := it.Kind
			if kind == "zero" {
				// symbolic-width padding: identity irrelevant
				id = "-"
			}
			out = append(out, node{kind: "var", desc: kind + "|" + it.W.String() + "|" + id, pos: pos})
		}
	}
	emitLoops(nil, nil)
	return out
}

func (in *Interp) knownBit(atom string, bit int) (byte, bool) {
	for _, k := range in.cfg[atom] {
		if bit >= k.lo && bit < k.lo+k.n {
			return byte((k.val >> uint(bit-k.lo)) & 1), true
		}
	}
	return 0, false
}

// toBV turns a written value into a bit vector of width w (bools become one bit).
func toBV(v Val, w int) *Expr {
	e, ok := v.(*Expr)
	if !ok {
		return &Expr{K: kOp, Op: "nonscalar"}
	}
	switch e.K {
	case kConstB:
		if e.B {
			return &Expr{K: kBV, W: w, Segs: []Seg{{N: w, C: 1}}}
		}
		return &Expr{K: kBV, W: w, Segs: []Seg{{N: w}}}
	case kConstI:
		return &Expr{K: kBV, W: w, Segs: []Seg{{N: w, C: uint64(e.I) & mask(w)}}}
	case kBV:
		return resizeBV2(e, w)
	case kOp:
		if e.Op == "!=" && len(e.Args) == 2 {
			if c, ok := e.Args[1].ConstI(); ok && c == 0 && e.Args[0].K == kBV && nonConstBits(e.Args[0]) == 1 {
				return resizeBV2(e.Args[0], w)
			}
		}
		if strings.HasPrefix(e.Op, "sext") {
			var fb int
			fmt.Sscanf(e.Op, "sext%d", &fb)
			if w <= fb {
				return resizeBV2(e.Args[0], w)
			}
		}
	}
	return e
}

func nonConstBits(e *Expr) int {
	n := 0
	for _, s := range e.Segs {
		if s.A != nil {
			n += s.N
		}
	}
	return n
}

func srcOfBit(e *Expr, bit int) bitSrc {
	if e.K != kBV {
		return bitSrc{op: e.String()}
	}
	pos := 0
	for _, s := range e.Segs {
		if bit < pos+s.N {
			if s.A == nil {
				return bitSrc{c: byte((s.C >> uint(bit-pos)) & 1)}
			}
			return bitSrc{atom: s.A.Name, bit: s.Lo + bit - pos}
		}
		pos += s.N
	}
	return bitSrc{c: 0}
}

func (b bitSrc) String() string {
	switch {
	case b.op != "":
		return "expr(" + b.op + ")"
	case b.dc:
		return "don't-care"
	case b.atom == "":
		return fmt.Sprintf("const %d", b.c)
	}
	return fmt.Sprintf("%s.bit%d", b.atom, b.bit)
}

// compareDE compares the decoder's read sequence with the encoder's write sequence (after the header).
var allowTrailingConst bool

func compareDE(d, e []node, shapeOnly bool) (problems []string, dontcare []string) {
	if shapeOnly {
		d, e = shapeOf(d), shapeOf(e)
	}
	if allowTrailingConst && len(e) > 0 && len(d) > 0 {
		// rbsp trailing bits / byte alignment written by the encoder after everything the decoder reads
		le, ld := e[len(e)-1], d[len(d)-1]
		if le.kind == "bits" && ld.kind == "bits" && len(le.bits) > len(ld.bits) && len(e) == len(d)+btoi(len(e) > 0 && e[0].kind == "var" && strings.HasPrefix(e[0].desc, "hdr|")) {
			extra := le.bits[len(ld.bits):]
			allConst := true
			for _, b := range extra {
				if b.atom != "" || b.op != "" {
					allConst = false
				}
			}
			if allConst && len(extra) <= 8 {
				cp := le
				cp.bits = le.bits[:len(ld.bits)]
				e = append(append([]node{}, e[:len(e)-1]...), cp)
			}
		} else if le.kind == "bits" && len(le.bits) <= 8 && (ld.kind != "bits" || len(e) == len(d)+1+btoi(len(e) > 0 && e[0].kind == "var" && strings.HasPrefix(e[0].desc, "hdr|"))) {
			// a separate trailing node after everything the decoder reads
			allConst := true
			for _, b := range le.bits {
				if b.atom != "" || b.op != "" {
					allConst = false
				}
			}
			if allConst {
				e = e[:len(e)-1]
			}
		}
	}
	// drop the encoder's header node
	if len(e) > 0 && e[0].kind == "var" && strings.HasPrefix(e[0].desc, "hdr|") {
		e = e[1:]
	}
	i, j := 0, 0
	for i < len(d) && j < len(e) {
		a, b := d[i], e[j]
		if a.kind != b.kind {
			problems = append(problems, fmt.Sprintf("layout shape differs: decoder has %s at %s where encoder has %s at %s", descNode(a), a.pos, descNode(b), b.pos))
			return
		}
		switch a.kind {
		case "bits":
			if len(a.bits) != len(b.bits) {
				problems = append(problems, fmt.Sprintf("fixed-width run differs: decoder reads %d bits (from %s), encoder writes %d bits (from %s)", len(a.bits), a.pos, len(b.bits), b.pos))
				return
			}
			runStart := -1
			var runConst uint64
			flush := func(end int) {
				if runStart >= 0 {
					dontcare = append(dontcare, fmt.Sprintf("w%d:c%#x", end-runStart, runConst))
					runStart = -1
					runConst = 0
				}
			}
			for k := range a.bits {
				x, y := a.bits[k], b.bits[k]
				switch {
				case x.dc && y.dc:
					continue
				case x.dc:
					if y.atom != "" || y.op != "" {
						problems = append(problems, fmt.Sprintf("encoder writes %s into bit %d of the run at %s, which the decoder (run at %s) does not keep", y, k, b.pos, a.pos))
						return
					}
					if runStart < 0 {
						runStart = k
					}
					if k-runStart < 64 {
						runConst = runConst<<1 | uint64(y.c)
					}
					continue
				case x.atom == "":
					if y.atom != "" || y.op != "" || y.c != x.c {
						flush(k)
						problems = append(problems, fmt.Sprintf("bit %d of the run at %s: decoder read the configured constant %d, encoder writes %s (at %s)", k, a.pos, x.c, y, b.pos))
						return
					}
				default:
					if y.atom != x.atom || y.bit != x.bit {
						flush(k)
						problems = append(problems, fmt.Sprintf("bit %d of the run at %s: decoder keeps %s there, encoder writes %s (at %s)", k, a.pos, x, y, b.pos))
						return
					}
				}
				flush(k)
			}
			flush(len(a.bits))
		case "var":
			if normVar(a.desc) != normVar(b.desc) {
				problems = append(problems, fmt.Sprintf("variable-width item differs: decoder %s at %s, encoder %s at %s", a.desc, a.pos, b.desc, b.pos))
				return
			}
		case "loop{":
			if a.desc != b.desc {
				problems = append(problems, fmt.Sprintf("loop bound differs: decoder iterates %s, encoder iterates %s", a.desc, b.desc))
				return
			}
		}
		i++
		j++
	}
	if i < len(d) || j < len(e) {
		if i < len(d) {
			problems = append(problems, fmt.Sprintf("decoder reads more than the encoder writes: next decoder item %s at %s", descNode(d[i]), d[i].pos))
		} else {
			problems = append(problems, fmt.Sprintf("encoder writes more than the decoder reads: next encoder item %s at %s", descNode(e[j]), e[j].pos))
		}
	}
	return
}

// normVar makes decoder-side and encoder-side descriptions of the same item comparable:
// "children|W|children#k" (decoder) vs a loop of "child" items (handled by the caller), zstr etc.
func normVar(s string) string { return s }

func descNode(n node) string {
	switch n.kind {
	case "bits":
		return fmt.Sprintf("%d fixed bits", len(n.bits))
	case "var":
		return n.desc
	}
	return n.kind + n.desc
}

// normalizeChildren rewrites the encoder's `loop{ child }` over a decoded children slice into the
// decoder's single "children" item so that both sides describe the same thing.
func normalizeChildren(ns []node) []node {
	var out []node
	for i := 0; i < len(ns); i++ {
		if ns[i].kind == "loop{" && i+2 < len(ns) && ns[i+1].kind == "var" && strings.HasPrefix(ns[i+1].desc, "child|") && ns[i+2].kind == "}" {
			// loop bound nchildren#k, element children#k[]
			parts := strings.Split(ns[i+1].desc, "|")
			id := parts[len(parts)-1]
			if strings.HasPrefix(id, "box(children#") && strings.HasPrefix(ns[i].desc, "nchildren#") {
				k := strings.TrimPrefix(ns[i].desc, "nchildren#")
				out = append(out, node{kind: "var", desc: "children|" + k, pos: ns[i+1].pos})
				i += 2
				continue
			}
		}
		if ns[i].kind == "var" && strings.HasPrefix(ns[i].desc, "children|") {
			parts := strings.Split(ns[i].desc, "|")
			id := parts[len(parts)-1]
			k := strings.TrimPrefix(id, "children#")
			out = append(out, node{kind: "var", desc: "children|" + k, pos: ns[i].pos})
			continue
		}
		out = append(out, ns[i])
	}
	return out
}

func nodesString(ns []node) string {
	var sb []string
	for _, n := range ns {
		switch n.kind {
		case "bits":
			sb = append(sb, "bits["+compactBits(n.bits)+"]")
		default:
			sb = append(sb, n.kind+n.desc)
		}
	}
	return strings.Join(sb, " ")
}

// compactBits renders a bit run with run-length compression.
func compactBits(bs []bitSrc) string {
	var out []string
	for i := 0; i < len(bs); {
		b := bs[i]
		j := i + 1
		switch {
		case b.atom != "":
			for j < len(bs) && bs[j].atom == b.atom && bs[j].bit == bs[j-1].bit-1 {
				j++
			}
			out = append(out, fmt.Sprintf("%s[%d:%d]", b.atom, bs[j-1].bit, b.bit+1))
		case b.dc:
			for j < len(bs) && bs[j].dc {
				j++
			}
			out = append(out, fmt.Sprintf("dc*%d", j-i))
		case b.op != "":
			for j < len(bs) && bs[j].op == b.op {
				j++
			}
			out = append(out, fmt.Sprintf("expr%s*%d", b.op, j-i))
		default:
			v := uint64(0)
			for j < len(bs) && bs[j].atom == "" && !bs[j].dc && bs[j].op == "" && j-i < 64 {
				j++
			}
			for k := i; k < j; k++ {
				v = v<<1 | uint64(bs[k].c)
			}
			out = append(out, fmt.Sprintf("c%d:%#x", j-i, v))
		}
		i = j
	}
	return strings.Join(out, ",")
}

// shapeOf forgets values: fixed runs keep only their length, variable items their kind and width.
func shapeOf(ns []node) []node {
	var out []node
	for _, n := range ns {
		switch n.kind {
		case "bits":
			bs := make([]bitSrc, len(n.bits))
			for i := range bs {
				bs[i] = bitSrc{dc: true}
			}
			m := n
			m.bits = bs
			out = append(out, m)
		case "var":
			parts := strings.Split(n.desc, "|")
			k := parts[0]
			if k == "zstr" {
				k = "bytes"
			}
			m := n
			if len(parts) > 1 {
				m.desc = k + "|" + parts[1]
			}
			out = append(out, m)
		default:
			out = append(out, n)
		}
	}
	// don't-care on both sides compares equal: make encoder constants don't-care too
	return out
}

// isZeroWidth: the width is a multiple of a quantity whose "positive" predicate is configured false.
func (in *Interp) isZeroWidth(w *Expr) bool {
	z := in.zeroSubst(w)
	c, ok := z.ConstI()
	return ok && c == 0
}

// zeroSubst drops polynomial terms that contain a factor X with positive(X) configured false (X = 0).
func (in *Interp) zeroSubst(e *Expr) *Expr {
	p := polyOf(e)
	r := cI(0)
	for k, v := range p.T {
		zero := false
		for _, f := range p.F[k] {
			if ks, ok := in.cfg["positive("+f.String()+")"]; ok && len(ks) == 1 && ks[0].val == 0 {
				zero = true
			}
		}
		if zero {
			continue
		}
		term := cI(v)
		for _, f := range p.F[k] {
			term = in.mkBin("*", term, f, typInfo{64, true})
		}
		r = in.mkBin("+", r, term, typInfo{64, true})
	}
	return r
}

func btoi(b bool) int {
	if b {
		return 1
	}
	return 0
}

package chk

// Per-box layout obligations built on the interpreter: one exploration per
// registered SR decoder yields the W-DE, W-SE, W-DD and W-EE verdicts.

import (
	"fmt"
	"go/types"
	"sort"
	"strings"

	"golang.org/x/tools/go/ssa"
)

type boxVerdict struct {
	name     string // SR decoder function name
	typ      string // concrete box type(s)
	pos      string
	nCfg     int
	nRej     int
	err      string
	de       map[string]string // cfg -> first problem
	se       map[string]string
	dd       map[string]string
	ee       map[string]string
	irr      map[string]string // phase -> reason (first)
	dontcare map[string]bool
	hasDD    bool
	hasEE    bool
	items    int
	tabled   string
	factDom  map[string]map[string]bool   // fact -> values seen over accepted configurations
	factsOf  map[string]map[string]string // cfg -> facts
}

type phaseErr struct {
	phase string
	why   string
}

func (in *Interp) phase(name string, f func()) {
	defer func() {
		if r := recover(); r != nil {
			if ir, ok := r.(irregular); ok {
				panic(phaseErr{name, ir.why})
			}
			panic(r)
		}
	}()
	f()
}

// analyseBox explores one SR decoder with its encoder, size function and optional twins.
func analyseBox(c *Ctx, sr, rd *types.Func, wantEE bool) *boxVerdict {
	if why, ok := irregularBoxes[sr.Name()]; ok {
		return &boxVerdict{name: sr.Name(), pos: c.Pos(sr.Pos()), tabled: why, de: map[string]string{}, se: map[string]string{}, dd: map[string]string{}, ee: map[string]string{}, irr: map[string]string{}, dontcare: map[string]bool{}}
	}
	bv := &boxVerdict{name: sr.Name(), pos: c.Pos(sr.Pos()), de: map[string]string{}, se: map[string]string{}, dd: map[string]string{}, ee: map[string]string{}, irr: map[string]string{}, dontcare: map[string]bool{}}
	ex := newExplorer(c)
	types_ := map[string]bool{}
	run := func(in *Interp) (out *cfgOutcome) {
		out = &cfgOutcome{}
		defer func() {
			if r := recover(); r != nil {
				if pe, ok := r.(phaseErr); ok {
					out.irregs = append(out.irregs, pe.phase+": "+pe.why)
					return
				}
				panic(r)
			}
		}()
		fr := &frame{pkg: c.Pkg("mp4"), env: map[types.Object]Val{}}
		var d *decodeResult
		in.phase("decode", func() { d = in.runDecoder(sr) })
		var d2 *decodeResult
		if rd != nil {
			in.phase("decode(reader path)", func() { d2 = in.runDecoder(rd) })
			if d.rejected != d2.rejected {
				out.problems = append(out.problems, fmt.Sprintf("DD|one decoder rejects this configuration and the other accepts it (SR rejected=%v, reader rejected=%v)", d.rejected, d2.rejected))
			}
		}
		if d.rejected {
			out.rejected = true
			return out
		}
		types_[typeName(d.obj.T)] = true
		out.facts = in.factsOf(d.obj)
		if d2 != nil && !d2.rejected {
			a, b := canonVal(d.obj, 0, map[*Obj]bool{}), canonVal(d2.obj, 0, map[*Obj]bool{})
			if a != b {
				out.problems = append(out.problems, "DD|decoded structures differ: SR "+a+" vs reader "+b)
			}
			ta, tb := itemSig(d.trace), itemSig(d2.trace)
			if ta != tb {
				out.problems = append(out.problems, "DD|read sequences differ: SR "+ta+" vs reader "+tb)
			}
		}
		used := usedAtoms(d.obj)
		dn := normalizeChildren(in.flatten(d.trace, true, used, c))
		out.nItems = len(d.trace.Items)
		// Size before encoding
		var size *Expr
		in.phase("Size", func() {
			sv := in.callMethod(fr, d.obj, "Size", nil, nil)
			e, ok := sv.(*Expr)
			if !ok {
				bail("Size() returned %s", showValShallow(sv))
			}
			size = e
		})
		sw := in.newStream(true, "sw")
		encRejected := false
		in.phase("EncodeSW", func() {
			in.panicked = false
			ev := in.callMethod(fr, d.obj, "EncodeSW", []Val{sw}, nil)
			if in.panicked {
				encRejected = true
				out.problems = append(out.problems, "DE|EncodeSW panics on a structure the decoder accepts")
			} else if e, ok := ev.(ErrV); ok && e.NonNil {
				encRejected = true
				out.problems = append(out.problems, "DE|EncodeSW returns an error for a structure the decoder accepts")
			}
		})
		if encRejected {
			return out
		}
		// W-SE: bytes written == Size(), header carries Size() of this box
		want := in.mkBin("*", cI(8), size, typInfo{64, true})
		if polyOf(in.zeroSubst(want)).String() != polyOf(in.zeroSubst(sw.T.BitPos)).String() {
			in.splitOnFixed(in.mkBin("-", want, sw.T.BitPos, typInfo{64, true}))
			out.problems = append(out.problems, fmt.Sprintf("SE|Size() = %s bytes but EncodeSW writes %s bits", size, polyOf(sw.T.BitPos)))
		}
		if len(sw.T.Items) == 0 || sw.T.Items[0].Kind != "hdr" {
			out.problems = append(out.problems, "SE|EncodeSW does not start with the box header")
		} else if tv, ok := sw.T.Items[0].V.(*TupleV); ok {
			hs, ok := tv.Vs[0].(*Expr)
			want := size
			if hw, okw := sw.T.Items[0].W.ConstI(); okw && hw == 64 && ok {
				// 8-byte header: the size field holds the low 32 bits (larger sizes are rejected by the header writer)
				want = mkConv(size, typInfo{64, false}, typInfo{32, false})
				hs = mkConv(hs, typInfo{64, false}, typInfo{32, false})
			}
			if !ok || hs.String() != want.String() {
				out.problems = append(out.problems, fmt.Sprintf("SE|header size field %s is not Size() = %s of the box being encoded", showValShallow(tv.Vs[0]), size))
			}
		}
		// W-DE, header form: boxes that keep the form write a header as long as the one they were decoded from
		if headerFormKept[sr.Name()] != "" && len(sw.T.Items) > 0 && sw.T.Items[0].Kind == "hdr" {
			hl := in.atom("hdr.Hdrlen", 62, false)
			diff := in.mkBin("-", sw.T.Items[0].W, in.mkBin("*", cI(8), hl, typInfo{64, true}), typInfo{64, true})
			in.splitOnFixed(diff)
			if pd := polyOf(diff).String(); pd != "0" {
				hlv, _ := hl.ConstI()
				out.problems = append(out.problems, fmt.Sprintf("DE|header form not kept: decoded from a %d-byte header, EncodeSW writes a header of %s bits", hlv, polyOf(sw.T.Items[0].W)))
			}
		}
		en := normalizeChildren(in.flatten(sw.T, false, nil, c))
		if debugDump {
			fmt.Printf("CFG %s\n  D: %s\n  E: %s\n  obj: %s\n", cfgT(in.cfg).String(), nodesString(dn), nodesString(en), canonVal(d.obj, 0, map[*Obj]bool{}))
		}
		probs, dcs := compareDE(dn, en, valueIrregular[sr.Name()] != "")
		for _, p := range probs {
			out.problems = append(out.problems, "DE|"+p)
		}
		out.dontcare = dcs
		// W-EE
		if wantEE {
			w := in.newStream(true, "w")
			in.phase("Encode", func() {
				in.callMethod(fr, d.obj, "Encode", []Val{w}, nil)
			})
			a, b := nodesString(in.flatten(sw.T, false, nil, c)), nodesString(in.flatten(w.T, false, nil, c))
			if a != b {
				out.problems = append(out.problems, "EE|Encode and EncodeSW write different layouts: EncodeSW "+a+" vs Encode "+b)
			}
		}
		return out
	}
	outs, err := ex.explore(run)
	bv.err = err
	bv.hasDD = rd != nil
	bv.hasEE = wantEE
	bv.factDom = map[string]map[string]bool{}
	bv.factsOf = map[string]map[string]string{}
	for _, o := range outs {
		bv.nCfg++
		if o.rejected {
			bv.nRej++
		}
		if !o.rejected && o.facts != nil {
			bv.factsOf[o.cfg] = o.facts
			for k, v := range o.facts {
				if bv.factDom[k] == nil {
					bv.factDom[k] = map[string]bool{}
				}
				bv.factDom[k][v] = true
			}
		}
		if o.nItems > bv.items {
			bv.items = o.nItems
		}
		for _, ir := range o.irregs {
			ph := ir[:strings.Index(ir, ":")]
			if _, ok := bv.irr[ph]; !ok {
				bv.irr[ph] = ir + " [cfg " + o.cfg + "]"
			}
		}
		for _, p := range o.problems {
			kind, msg := p[:2], p[3:]
			m := map[string]map[string]string{"DE": bv.de, "SE": bv.se, "DD": bv.dd, "EE": bv.ee}[kind]
			if _, ok := m[o.cfg]; !ok {
				m[o.cfg] = msg
			}
		}
		for _, dc := range o.dontcare {
			bv.dontcare[dc] = true
		}
	}
	var ts []string
	for t := range types_ {
		ts = append(ts, t)
	}
	sort.Strings(ts)
	bv.typ = strings.Join(ts, "|")
	return bv
}

func itemSig(t *Trace) string {
	var sb []string
	for _, it := range t.Items {
		sb = append(sb, it.Kind+":"+it.W.String()+strings.Join(it.Loops, "/"))
	}
	return strings.Join(sb, ";")
}

var boxVerdictCache map[*Ctx][]*boxVerdict

// allBoxVerdicts analyses every registered SR decoder once per process.
func allBoxVerdicts(c *Ctx, r *Report) []*boxVerdict {
	if boxVerdictCache == nil {
		boxVerdictCache = map[*Ctx][]*boxVerdict{}
	}
	if v, ok := boxVerdictCache[c]; ok {
		return v
	}
	p := c.Pkg("mp4")
	clD, clS := mapLiteralOf(p, "decoders"), mapLiteralOf(p, "decodersSR")
	if clD == nil || clS == nil {
		r.Undecided("W", "anchor:registries", "", "decoder registries not found")
		return nil
	}
	eD, e1 := registryEntries(p, clD)
	eS, e2 := registryEntries(p, clS)
	if e1 != nil || e2 != nil {
		r.Undecided("W", "shape:registries", "", "decoder registries not of key:func shape")
		return nil
	}
	rdOf := map[string]*types.Func{}
	for _, e := range eD {
		rdOf[e.key] = e.fn
	}
	seen := map[*types.Func]bool{}
	prog := c.SSA()
	var out []*boxVerdict
	nonWrap := map[string]bool{}
	for _, f := range encodeNonWrappers(c) {
		nonWrap[FuncName(f)] = true
	}
	for _, e := range eS {
		if seen[e.fn] {
			continue
		}
		seen[e.fn] = true
		// reader twin: only if it is separately written (does not delegate to this SR decoder)
		var rd *types.Func
		if d := rdOf[e.key]; d != nil {
			deleg := false
			if sf := prog.FuncValue(d); sf != nil {
				deleg = callsFunc(c, d, e.fn)
			}
			if !deleg {
				rd = d
			}
		}
		bv := analyseBox(c, e.fn, rd, false)
		// second pass with Encode comparison when the box's Encode is not a plain wrapper
		if bv.typ != "" {
			want := false
			for _, t := range strings.Split(bv.typ, "|") {
				if nonWrap["mp4."+t+".Encode"] {
					want = true
				}
			}
			if want {
				bv = analyseBox(c, e.fn, rd, true)
			}
		}
		out = append(out, bv)
	}
	sort.Slice(out, func(i, j int) bool { return out[i].name < out[j].name })
	boxVerdictCache[c] = out
	return out
}

// callsFunc reports whether fn's body statically calls target.
func callsFunc(c *Ctx, fn, target *types.Func) bool {
	sf := c.SSA().FuncValue(fn)
	if sf == nil {
		return false
	}
	for _, b := range sf.Blocks {
		for _, ins := range b.Instrs {
			if call, ok := ins.(*ssa.Call); ok {
				if cal := call.Call.StaticCallee(); cal != nil && cal.Object() == types.Object(target) {
					return true
				}
			}
		}
	}
	return false
}

func encodeNonWrappers(c *Ctx) []*types.Func {
	scratch := NewReport("scratch")
	return ruleTWRAP(c, scratch)
}

// splitOnFixed: a disagreement that mentions an atom with a fixed small domain (hdr.Hdrlen) is
// re-examined per value of that atom.
func (in *Interp) splitOnFixed(e *Expr) {
	var segs []Seg
	atomsOf(e, &segs)
	for _, s := range segs {
		if s.A.Fixed != nil {
			panic(need{atom: s.A, lo: 0, n: s.A.W, reason: "disagreement depends on " + s.A.Name})
		}
	}
}

// factsOf lists the configured (discriminant) values as facts about the decoded structure:
// "Version=2", "Flags[0:1]=1", and environment discriminants as they are named in the configuration.
func (in *Interp) factsOf(o *Obj) map[string]string {
	facts := map[string]string{}
	var visit func(path string, v Val, depth int)
	visit = func(path string, v Val, depth int) {
		if depth > 3 {
			return
		}
		switch x := v.(type) {
		case *Expr:
			switch x.K {
			case kConstI:
				if len(x.Tags) > 0 {
					facts[path] = fmt.Sprint(x.I)
				}
			case kConstB:
				// booleans derived from configured bits carry no tag; skip
			case kBV:
				pos := 0
				for _, sg := range x.Segs {
					if sg.A == nil && sg.Tag != nil {
						facts[fmt.Sprintf("%s[%d:%d]", path, pos, pos+sg.N)] = fmt.Sprint(sg.C)
					}
					pos += sg.N
				}
			}
		case *Obj:
			if x.Opaque {
				return
			}
			for k, f := range x.F {
				visit(joinPath(path, k), f, depth+1)
			}
		case *SliceV:
			if x.Len != nil {
				visit("len("+path+")", x.Len, depth+1)
			}
			if x.Elem != nil {
				visit(path+"[]", x.Elem, depth+1)
			}
		}
	}
	visit("", o, 0)
	for name, ks := range in.cfg {
		if strings.HasPrefix(name, "hdr.") || strings.HasPrefix(name, "positive(") || strings.HasPrefix(name, "pred(") || strings.HasPrefix(name, "streq(") {
			for _, k := range ks {
				facts[name] = fmt.Sprint(k.val)
			}
		}
	}
	return facts
}

package chk

import (
	"go/token"
	"fmt"
	"go/types"
	"sort"
	"strings"

	"golang.org/x/tools/go/ssa"
)

// ---- S-WHOLE: what Size() counts by its length is written whole --------------------------------------------------

// recvFieldOfLoad returns the name of the receiver field v is loaded from (v = *(&recv.F)), or "".
func recvFieldOfLoad(f *ssa.Function, v ssa.Value) string {
	un, ok := v.(*ssa.UnOp)
	if !ok {
		return ""
	}
	fa, ok := un.X.(*ssa.FieldAddr)
	if !ok || len(f.Params) == 0 || fa.X != f.Params[0] {
		return ""
	}
	return fieldNameOf(fa)
}

// ruleWholeField (S-WHOLE): for a type with Size() and EncodeSW, a slice field whose len() Size() reads is not cut
// (recv.F[:k], recv.F[k:]) in EncodeSW before it is walked or written: Size() counts every entry, so an encoder that
// walks a clamped prefix writes fewer bytes than the header announces. Returns the number of (type, field) pairs whose
// length Size() reads and EncodeSW touches.
func ruleWholeField(c *Ctx, r *Report, pkgs map[string]bool) int {
	n := 0
	byType := map[string]map[string]*ssa.Function{}
	for _, f := range c.RepoFuncs(IsLib) {
		if f.Synthetic != "" || f.Signature.Recv() == nil || f.Pkg == nil || (pkgs != nil && !pkgs[f.Pkg.Pkg.Name()]) || f.Parent() != nil {
			continue
		}
		tn := f.Pkg.Pkg.Name() + "." + typeName(f.Signature.Recv().Type())
		if byType[tn] == nil {
			byType[tn] = map[string]*ssa.Function{}
		}
		byType[tn][f.Name()] = f
	}
	var names []string
	for tn := range byType {
		names = append(names, tn)
	}
	sort.Strings(names)
	for _, tn := range names {
		size, enc := byType[tn]["Size"], byType[tn]["EncodeSW"]
		if size == nil || enc == nil || len(size.Blocks) == 0 || len(enc.Blocks) == 0 {
			continue
		}
		counted := map[string]bool{}
		for _, b := range size.Blocks {
			for _, ins := range b.Instrs {
				call, ok := ins.(*ssa.Call)
				if !ok {
					continue
				}
				if bi, ok := call.Call.Value.(*ssa.Builtin); ok && bi.Name() == "len" && len(call.Call.Args) == 1 {
					if fld := recvFieldOfLoad(size, call.Call.Args[0]); fld != "" {
						if _, isSlice := call.Call.Args[0].Type().Underlying().(*types.Slice); isSlice {
							counted[fld] = true
						}
					}
				}
			}
		}
		if len(counted) == 0 {
			continue
		}
		touched := map[string]bool{}
		cut := map[string]*ssa.Slice{}
		for _, b := range enc.Blocks {
			for _, ins := range b.Instrs {
				switch x := ins.(type) {
				case *ssa.UnOp:
					if fld := recvFieldOfLoad(enc, x); counted[fld] {
						touched[fld] = true
					}
				case *ssa.Slice:
					fld := recvFieldOfLoad(enc, x.X)
					if !counted[fld] || (x.Low == nil && x.High == nil) {
						continue
					}
					whole := x.Low == nil
					if whole && x.High != nil {
						whole = false
						if lc, ok := stripConv(x.High).(*ssa.Call); ok {
							if lb, ok := lc.Call.Value.(*ssa.Builtin); ok && lb.Name() == "len" && recvFieldOfLoad(enc, lc.Call.Args[0]) == fld {
								whole = true
							}
						}
					}
					if !whole && cut[fld] == nil {
						cut[fld] = x
					}
				}
			}
		}
		var flds []string
		for fld := range touched {
			flds = append(flds, fld)
		}
		sort.Strings(flds)
		for _, fld := range flds {
			n++
			key := tn + "." + fld + ":whole"
			if s := cut[fld]; s != nil {
				r.Bad("S-WHOLE", key, c.Pos(s.Pos()), fmt.Sprintf("Size() counts %s by its length, EncodeSW takes a sub-slice of it: the entries outside the cut are counted and announced in the header but not written", fld))
			} else {
				r.OK("S-WHOLE", key, c.Pos(enc.Pos()), fmt.Sprintf("Size() counts %s by its length and EncodeSW never cuts it", fld))
			}
		}
	}
	return n
}

var _ = strings.HasPrefix

// ---- T-MMCO: the operands of each memory management control operation (ITU-T H.264, 7.3.3.3) --------------------

// mmcoOperands: number of ue(v) operands that follow memory_management_control_operation k in dec_ref_pic_marking():
// 1 difference_of_pic_nums_minus1; 2 long_term_pic_num; 3 difference_of_pic_nums_minus1 and long_term_frame_idx;
// 4 max_long_term_frame_idx_plus1; 5 none; 6 long_term_frame_idx.
var mmcoOperands = map[int64]int{1: 1, 2: 1, 3: 2, 4: 1, 5: 0, 6: 1}

// derivedFrom: v is root seen through conversions.
func derivedFrom(v, root ssa.Value) bool {
	for i := 0; i < 4; i++ {
		if v == root {
			return true
		}
		switch x := v.(type) {
		case *ssa.Convert:
			v = x.X
		case *ssa.ChangeType:
			v = x.X
		default:
			return false
		}
	}
	return v == root
}

// ruleMMCOOperands (T-MMCO): in avc.ParseSliceHeader the value compared with at least four distinct constants including
// 0 directly after an Exp-Golomb read is the memory management control operation; for each operation 1..6 the walk from
// that read, taking every branch on the operation by its value, passes exactly the tabled number of Exp-Golomb reads
// before the first branch on anything else. Returns the number of operation reads found.
func ruleMMCOOperands(c *Ctx, r *Report, fnName string) int {
	n := 0
	for _, f := range c.RepoFuncs(nil) {
		if SSAFuncName(f) != fnName {
			continue
		}
		for _, b := range f.Blocks {
			for idx, ins := range b.Instrs {
				call, ok := ins.(*ssa.Call)
				if !ok || !strings.HasSuffix(calleeName(&call.Call), ".ReadExpGolomb") {
					continue
				}
				consts := map[int64]bool{}
				for _, bb := range f.Blocks {
					for _, in2 := range bb.Instrs {
						bo, ok := in2.(*ssa.BinOp)
						if !ok || bo.Op != token.EQL {
							continue
						}
						if cv, ok := bo.Y.(*ssa.Const); ok && cv.Value != nil && derivedFrom(bo.X, call) {
							consts[cv.Int64()] = true
						}
					}
				}
				if len(consts) < 4 || !consts[0] {
					continue
				}
				n++
				for _, op := range []int64{1, 2, 3, 4, 5, 6} {
					key := fmt.Sprintf("%s:mmco=%d", fnName, op)
					reads, why := 0, ""
					cur, start := b, idx+1
					for steps := 0; steps < 64 && why == ""; steps++ {
						for _, in3 := range cur.Instrs[start:] {
							if c3, ok := in3.(*ssa.Call); ok && strings.HasSuffix(calleeName(&c3.Call), "Golomb") {
								reads++
							}
						}
						start = 0
						last := cur.Instrs[len(cur.Instrs)-1]
						switch t := last.(type) {
						case *ssa.Jump:
							cur = cur.Succs[0]
						case *ssa.If:
							bo, ok := t.Cond.(*ssa.BinOp)
							cv, isC := (*ssa.Const)(nil), false
							if ok {
								cv, isC = bo.Y.(*ssa.Const)
							}
							if !ok || !isC || cv.Value == nil || !derivedFrom(bo.X, call) || (bo.Op != token.EQL && bo.Op != token.NEQ) {
								why = "end"
								break
							}
							truth := (cv.Int64() == op) == (bo.Op == token.EQL)
							if truth {
								cur = cur.Succs[0]
							} else {
								cur = cur.Succs[1]
							}
						default:
							why = "end"
						}
						if cur == b && why == "" {
							why = "loop"
						}
					}
					if why == "" {
						r.Undecided("T-MMCO", key, c.Pos(call.Pos()), "the walk from the operation read did not end")
						continue
					}
					if reads != mmcoOperands[op] {
						r.Bad("T-MMCO", key, c.Pos(call.Pos()), fmt.Sprintf("memory_management_control_operation %d is followed by %d Exp-Golomb operands in the parser, H.264 7.3.3.3 has %d: every later field of the slice header is read from the wrong bit position", op, reads, mmcoOperands[op]))
					} else {
						r.OK("T-MMCO", key, c.Pos(call.Pos()), fmt.Sprintf("operation %d is followed by %d Exp-Golomb operands as in H.264 7.3.3.3", op, reads))
					}
				}
			}
		}
	}
	return n
}

package chk

import (
	"fmt"
	"go/types"
	"sort"
	"strings"

	"golang.org/x/tools/go/ssa"
)

// ---- S-WHOLE: what Size() counts by its length is written whole --------------------------------------------------

// recvFieldOfLoad returns the name of the receiver field v is loaded from (v = *(&recv.F)), or "".
func recvFieldOfLoad(f *ssa.Function, v ssa.Value) string {
	un, ok := v.(*ssa.UnOp)
	if !ok {
		return ""
	}
	fa, ok := un.X.(*ssa.FieldAddr)
	if !ok || len(f.Params) == 0 || fa.X != f.Params[0] {
		return ""
	}
	return fieldNameOf(fa)
}

// ruleWholeField (S-WHOLE): for a type with Size() and EncodeSW, a slice field whose len() Size() reads is not cut
// (recv.F[:k], recv.F[k:]) in EncodeSW before it is walked or written: Size() counts every entry, so an encoder that
// walks a clamped prefix writes fewer bytes than the header announces. Returns the number of (type, field) pairs whose
// length Size() reads and EncodeSW touches.
func ruleWholeField(c *Ctx, r *Report, pkgs map[string]bool) int {
	n := 0
	byType := map[string]map[string]*ssa.Function{}
	for _, f := range c.RepoFuncs(IsLib) {
		if f.Synthetic != "" || f.Signature.Recv() == nil || f.Pkg == nil || (pkgs != nil && !pkgs[f.Pkg.Pkg.Name()]) || f.Parent() != nil {
			continue
		}
		tn := f.Pkg.Pkg.Name() + "." + typeName(f.Signature.Recv().Type())
		if byType[tn] == nil {
			byType[tn] = map[string]*ssa.Function{}
		}
		byType[tn][f.Name()] = f
	}
	var names []string
	for tn := range byType {
		names = append(names, tn)
	}
	sort.Strings(names)
	for _, tn := range names {
		size, enc := byType[tn]["Size"], byType[tn]["EncodeSW"]
		if size == nil || enc == nil || len(size.Blocks) == 0 || len(enc.Blocks) == 0 {
			continue
		}
		counted := map[string]bool{}
		for _, b := range size.Blocks {
			for _, ins := range b.Instrs {
				call, ok := ins.(*ssa.Call)
				if !ok {
					continue
				}
				if bi, ok := call.Call.Value.(*ssa.Builtin); ok && bi.Name() == "len" && len(call.Call.Args) == 1 {
					if fld := recvFieldOfLoad(size, call.Call.Args[0]); fld != "" {
						if _, isSlice := call.Call.Args[0].Type().Underlying().(*types.Slice); isSlice {
							counted[fld] = true
						}
					}
				}
			}
		}
		if len(counted) == 0 {
			continue
		}
		touched := map[string]bool{}
		cut := map[string]*ssa.Slice{}
		for _, b := range enc.Blocks {
			for _, ins := range b.Instrs {
				switch x := ins.(type) {
				case *ssa.UnOp:
					if fld := recvFieldOfLoad(enc, x); counted[fld] {
						touched[fld] = true
					}
				case *ssa.Slice:
					fld := recvFieldOfLoad(enc, x.X)
					if !counted[fld] || (x.Low == nil && x.High == nil) {
						continue
					}
					whole := x.Low == nil
					if whole && x.High != nil {
						whole = false
						if lc, ok := stripConv(x.High).(*ssa.Call); ok {
							if lb, ok := lc.Call.Value.(*ssa.Builtin); ok && lb.Name() == "len" && recvFieldOfLoad(enc, lc.Call.Args[0]) == fld {
								whole = true
							}
						}
					}
					if !whole && cut[fld] == nil {
						cut[fld] = x
					}
				}
			}
		}
		var flds []string
		for fld := range touched {
			flds = append(flds, fld)
		}
		sort.Strings(flds)
		for _, fld := range flds {
			n++
			key := tn + "." + fld + ":whole"
			if s := cut[fld]; s != nil {
				r.Bad("S-WHOLE", key, c.Pos(s.Pos()), fmt.Sprintf("Size() counts %s by its length, EncodeSW takes a sub-slice of it: the entries outside the cut are counted and announced in the header but not written", fld))
			} else {
				r.OK("S-WHOLE", key, c.Pos(enc.Pos()), fmt.Sprintf("Size() counts %s by its length and EncodeSW never cuts it", fld))
			}
		}
	}
	return n
}

var _ = strings.HasPrefix

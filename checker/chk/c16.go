package chk

import (
	"fmt"
	"strings"

	"golang.org/x/tools/go/ssa"
)

func init() { Registry["C16"] = checkC16 }

// C16 — untrusted elementary-stream bytes never crash or hang the codec helpers (structural part).
func checkC16(c *Ctx, r *Report) {
	r.Explanation = "Over the functions reachable from the exported helpers of avc, hevc, sei, aac, av1 that take raw bytes or readers (and String/Payload/Size of their message types): " +
		"R1 no explicit panic reachable; G1 allocations sized by wide untrusted values (Exp-Golomb counts, 32-bit lengths) are guarded by a comparison; " +
		"G2 every cycle of every data-driven loop passes an error test of the sticky-error bit reader or a bounded counter test. " +
		"G3 a slice made in a function and indexed there by a counter is indexed below the length it was made with (decided when both are the same value or constants). G4 every constant index or constant slice bound on a slice is dominated by a length test, long enough by construction, or rests on a checked invariant of the decoder; G9 in the start-code scanners `for i < len(s)-k`, every element i+c of s that is read (directly or through a variable set to i+c) has c <= k or its own test against the length; G10 a loop cursor advanced by an untrusted length is wider than that length (no wrap-around); G11 in a counted loop, an element s[cursor+c] addressed through a second loop variable advanced by constants is read only after a test in the same iteration that len(s) >= cursor+k with k > c, or under a test before the loop that is linear in the loop bound and covers the last iteration (closed form of the cursor); L-NEGCONV a signed difference (length or parameter minus a constant) converted to an unsigned type and used as a bound is preceded by a test that it is non-negative; G3D an index that counts down is used only under a dominating test that keeps it at 0 or above (directly, or through `i > v` with v shown non-negative); G3X an index that counts up to the length of one slice is used on another only under a dominating test that the other is at least as long; G-NILMAP no assignment m[k] = v to a map that may still be the nil zero value of its variable on some path; G8 an untrusted value used as an index is compared with the length of the slice first (or has too few bits to exceed a fixed table); G5 every integer division by a non-constant is dominated by a non-zero test (through unexported helpers: at every call site). Does not decide computed indices of the NAL walkers (value-range reasoning), nor time constants."
	r.Assume("taint is flow-insensitive on struct fields and on the elements of slice-typed fields; arguments reach the parameters of static callees and, through the VTA call graph, of interface and function-value callees; for allocations and reading loops a guard is a dominating comparison that shares a taint root and, when the other side is untainted, bounds the tainted side from above on the way taken (its arithmetic is not checked)")
	entries := entriesC16(c)
	scope, _ := scopeFrom(c, entries)
	ruleR1(c, r, entries, "R1")
	ruleG1(c, r, scope, "G1")
	ruleG2(c, r, scope, "G2")
	r.Floor("G2", 10)
	ruleG3(c, r, scope, 12)
	ruleG3Lin(c, r, scope)
	ruleG4(c, r, scope, map[string]func(*Ctx, *Report, string) bool{"sei.PicTimingAvcSEI.String:(PicTimingAvcSEI).Clocks[0]": invAppendedAtLeastOnce("sei", "PicTimingAvcSEI", "Clocks", 1),
		"sei.UnregisteredSEI.String:(UnregisteredSEI).payload[16:]": invCallersCheckLen("sei", "NewUnregisteredSEI", "UnregisteredSEI", "payload", 16)})
	ruleG8(c, r, scope, map[string]func(*Ctx, *Report, string) bool{"hevc.parseShortTermRPS:(SPS).ShortTermRefPicSets[(byte)]": invRPSIndex})
	ruleG9(c, r, scope)
	r.Floor("G9", 8)
	r.Floor("G10", 8)
	r.Floor("G8", 10)
	ruleG10(c, r, scope)
	requireFixture(r, "G10", "walkWrong", func(fc *Ctx, s *Report) { ruleG10(fc, s, fixtureAllFuncs(fc)) })
	ruleG5(c, r, scope, nil)
	if n := ruleNilMapUpdate(c, r, func(f *ssa.Function) bool { return scope[f] }); n < 2 {
		r.Undecided("G-NILMAP", "scope", "", fmt.Sprintf("only %d map updates found in the codec helpers", n))
	}
	requireFixture(r, "G-NILMAP", "nilMapUpdate", func(fc *Ctx, s *Report) { ruleNilMapUpdate(fc, s, nil) })
	ruleG3X(c, r, scope)
	if n := ruleGNILCodec(c, r, scope); n < 10 {
		r.Undecided("G-NIL", "scope:codec-fields", "", fmt.Sprintf("only %d conditionally filled pointer fields of the codec structures found", n))
	}
	if n := ruleLoopProgress(c, r, func(f *ssa.Function) bool { return scope[f] }); n < 8 {
		r.Undecided("L-PROGRESS", "scope", "", fmt.Sprintf("only %d cursor loops without an external reader found in the codec helpers", n))
	}
	requireFixture(r, "L-PROGRESS", "walkStuck", func(fc *Ctx, s *Report) { ruleLoopProgress(fc, s, nil) })
	if n := ruleNilFieldIndexed(c, r, "G-NILFIELD", func(f *ssa.Function) bool { return scope[f] }); n < 3 {
		r.Undecided("G-NILFIELD", "scope", "", fmt.Sprintf("only %d slice fields of objects a codec helper creates are indexed", n))
	}
	requireFixture(r, "G-NILFIELD", "nilFieldRec", func(fc *Ctx, s *Report) { ruleNilFieldIndexed(fc, s, "G-NILFIELD", nil) })
	ruleNegConv(c, r, func(f *ssa.Function) bool { return scope[f] || strings.HasPrefix(SSAFuncName(f), "mp4.") })
	requireFixture(r, "L-NEGCONV", "lastStartWrong", func(fc *Ctx, s *Report) { ruleNegConv(fc, s, nil) })
	if n := ruleG3D(c, r, func(f *ssa.Function) bool { return scope[f] }); n < 4 {
		r.Undecided("G3D", "scope", "", fmt.Sprintf("only %d indices counting down found in the codec helpers (the Annex B trailing-zero trims expected)", n))
	}
	requireFixture(r, "G3D", "carryDown", func(fc *Ctx, s *Report) { ruleG3D(fc, s, nil) })
	requireFixture(r, "G3X", "crossIndexWrong", func(fc *Ctx, s *Report) { ruleG3X(fc, s, fixtureAllFuncs(fc)) })
	if n := ruleG11(c, r, scope); n < 3 {
		r.Undecided("G11", "scope", "", "cursor walks (ParseCEA608) not found")
	}
	requireFixture(r, "G11", "cursorWalkWrong", func(fc *Ctx, s *Report) { ruleG11(fc, s, fixtureAllFuncs(fc)) })
	requireFixtureAccepted(r, "G11", "cursorWalkRight", func(fc *Ctx, s *Report) { ruleG11(fc, s, fixtureAllFuncs(fc)) })
}

package chk

func init() { Registry["C16"] = checkC16 }

// C16 — untrusted elementary-stream bytes never crash or hang the codec helpers (structural part).
func checkC16(c *Ctx, r *Report) {
	r.Explanation = "Over the functions reachable from the exported helpers of avc, hevc, sei, aac, av1 that take raw bytes or readers (and String/Payload/Size of their message types): " +
		"R1 no explicit panic reachable; G1 allocations sized by wide untrusted values (Exp-Golomb counts, 32-bit lengths) are guarded by a comparison; " +
		"G2 every cycle of every data-driven loop passes an error test of the sticky-error bit reader or a bounded counter test. " +
		"Does not decide general slice-bounds safety of the NAL walkers (value-range reasoning), nor time constants."
	r.Assume("taint is flow-insensitive on struct fields and does not flow through slice elements; a guard is any dominating comparison sharing a taint root")
	entries := entriesC16(c)
	scope, _ := scopeFrom(c, entries)
	ruleR1(c, r, entries, "R1")
	ruleG1(c, r, scope, "G1")
	ruleG2(c, r, scope, "G2")
	r.Floor("G2", 10)
}

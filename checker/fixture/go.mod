module github.com/Eyevinn/mp4ff

go 1.16

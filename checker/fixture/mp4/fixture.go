// Package mp4 (fixture): deliberately wrong code. Every function here violates exactly one of the checker's
// rules whose expected number of reports on the real repository is zero; the checker analyses this module on
// every run and fails if a rule no longer reports its fixture (a rule that matches nothing passes vacuously).
// This code is never built into anything and never run.
package mp4

import (
	"bytes"
	"encoding/binary"
	"io"
)

// MdatBox mirrors the field the W-MDATHDR rule looks at.
type MdatBox struct {
	StartPos  uint64
	LargeSize bool
}

// W-MDATHDR: payload start computed with a constant header length.
func payloadStartWrong(m *MdatBox) uint64 {
	return m.StartPos + 8
}

func payloadStartAlsoRead(m *MdatBox) uint64 { return m.StartPos }

func payloadStartThird(m *MdatBox) (uint64, bool) { return m.StartPos, m.LargeSize }

// TfrfData mirrors a size function with a narrow product (W-NARROW).
type TfrfData struct {
	Version       byte
	FragmentCount byte
}

func (t *TfrfData) size() uint64 {
	entrySize := 8 + 8*t.Version
	return 5 + uint64(entrySize*t.FragmentCount)
}

// R4: a decoder that keeps a slice of the reader's own storage.
func readBodyAliasing(r io.Reader, n int) []byte {
	if buf, ok := r.(*bytes.Buffer); ok {
		return buf.Next(n)
	}
	return nil
}

// G10: a 32-bit cursor advanced by a 32-bit length read from the data.
func walkWrong(sample []byte) int {
	n := 0
	var pos uint32
	for pos < uint32(len(sample)) {
		l := binary.BigEndian.Uint32(sample[pos : pos+4])
		pos += 4
		n++
		pos += l
	}
	return n
}

// W-TRUNC: a value narrowed for a 16-bit field and reused where the full value is needed.
type audioEntry struct {
	SampleRate uint16
	Frequency  int
}

func truncReuse(samplingFrequency int) audioEntry {
	sr := uint16(samplingFrequency)
	return audioEntry{SampleRate: sr, Frequency: int(sr)}
}

// FWD-SWAP: two same-typed parameters passed crosswise to a callee with the same parameter names.
func makeRange(startNr, endNr uint32) [2]uint32 { return [2]uint32{startNr, endNr} }

func swappedForward(startNr, endNr uint32) [2]uint32 { return makeRange(endNr, startNr) }

// L-MAKEAPPEND
type lengths struct{ L []uint32 }

func makeThenAppend(n int) *lengths {
	b := &lengths{}
	b.L = make([]uint32, n)
	for i := 0; i < n; i++ {
		b.L = append(b.L, uint32(i))
	}
	return b
}

// W-NARROW-ACC
func narrowAcc(durs []uint32, base uint64) uint64 {
	var acc uint32
	for _, d := range durs {
		acc += d
	}
	return base + uint64(acc)
}

// L-SIBLING
type weights struct {
	WeightsL0 []weight
	WeightsL1 []weight
}
type weight struct {
	Flag  bool
	Delta int
}

func siblingLoop(w *weights, vals []int) {
	for i := range w.WeightsL1 {
		if w.WeightsL0[i].Flag {
			w.WeightsL1[i].Delta = vals[i]
		}
	}
}

// R3-RET
type msg struct{ T uint }

func DecodeAliasing(sd *msg) interface{} { return sd }

// L-NILRANGE
type holder struct{ Items []*msg }

func (h *holder) removeAll() (out []*msg, total uint) {
	out = h.Items
	h.Items = nil
	for _, it := range h.Items {
		total += it.T
	}
	return out, total
}

// L-RANGEVAL
func rangeValAssign(ps [][]byte, data []byte) [][]byte {
	pos := 0
	for _, p := range ps {
		copy(data[pos:], p)
		p = data[pos : pos+len(p)]
		pos += len(p)
	}
	return ps
}

// UseHolder keeps the method set of holder reachable.
func UseHolder(h *holder) uint {
	_, t := h.removeAll()
	return t
}

// G11: the per-triplet test hoisted out of the loop forgets the two header bytes.
func cursorWalkWrong(payload []byte) int {
	if len(payload) < 1 {
		return 0
	}
	n := int(payload[0] & 0x1f)
	pos := 2
	if len(payload) < 3*n {
		return 0
	}
	sum := 0
	for i := 0; i < n; i++ {
		sum += int(payload[pos]) + int(payload[pos+2])
		pos += 3
	}
	return sum
}

// G11 (negative): the same walk with the right hoisted test must be accepted.
func cursorWalkRight(payload []byte) int {
	if len(payload) < 1 {
		return 0
	}
	n := int(payload[0] & 0x1f)
	pos := 2
	if len(payload) < 2+3*n {
		return 0
	}
	sum := 0
	for i := 0; i < n; i++ {
		sum += int(payload[pos]) + int(payload[pos+2])
		pos += 3
	}
	return sum
}

// L-LOCKSTEP: counter and list stepped together in one place, the counter alone in another.
type stepper struct {
	n    int
	list []int
}

func (s *stepper) both(v int) {
	s.n++
	s.list = append(s.list, v)
}

func (s *stepper) alone(skip bool, v int) {
	if skip {
		s.n++
		return
	}
	s.n++
	s.list = append(s.list, v)
}

// UseStepper keeps the methods reachable.
func UseStepper(s *stepper) {
	s.both(1)
	s.alone(true, 2)
}

// T-REACH: the last entry of a specification table cannot be looked up.
var AC3SampleRates = []int{48000, 44100, 32000}

func tightLookup(fscod byte) int {
	rate := AC3SampleRates[0]
	if int(fscod) < len(AC3SampleRates)-1 {
		rate = AC3SampleRates[fscod]
	}
	return rate
}

// L-APPENDALIAS: broken insertions (two forms) and the two correct idioms.
func insertBroken1(xs []int, k, v int) []int {
	rest := xs[k:]
	xs = append(xs[:k], v)
	xs = append(xs, rest...)
	return xs
}

func insertBroken2(xs []int, k, v int) []int {
	return append(append(xs[:k], v), xs[k:]...)
}

func insertRight(xs []int, k, v int) []int {
	xs = append(xs[:k+1], xs[k:]...)
	xs[k] = v
	return xs
}

func deleteRight(xs []int, i int) []int {
	return append(xs[:i], xs[i+1:]...)
}

// L-SHORTREAD: one direct Read for a whole range.
func shortRead(rs io.ReadSeeker, n int) []byte {
	buf := make([]byte, n)
	k, _ := rs.Read(buf)
	return buf[:k]
}

// L-LOOPALIAS: one read buffer reused for every kept sample.
type keptSample struct {
	Data []byte
}

func reuseBuffer(r io.Reader, sizes []int) []keptSample {
	var out []keptSample
	var buf []byte
	for _, size := range sizes {
		if cap(buf) < size {
			buf = make([]byte, size)
		}
		data := buf[:size]
		_, _ = io.ReadFull(r, data)
		out = append(out, keptSample{Data: data})
	}
	return out
}

// G-NILMAP: the map is only made on one arm.
func nilMapUpdate(split bool, keys []string) map[string]int {
	var m map[string]int
	if !split {
		m = make(map[string]int)
	}
	for i, k := range keys {
		m[k] = i
	}
	return m
}

// O-APPENDPARAM: pads the caller's 8-byte IV in place when it has spare capacity.
func PadIV(iv []byte) []byte {
	if len(iv) == 8 {
		iv = append(iv, make([]byte, 8)...)
	}
	return iv
}

// R2-SHARE: every object gets the package-level slice itself.
var sharedUUID = []byte{1, 2, 3, 4}

type uuidHolder struct {
	uuid []byte
}

func NewSharedHolder() *uuidHolder {
	return &uuidHolder{uuid: sharedUUID}
}

// O-REUSE: overwrites whatever storage the field happens to point at.
func (u *uuidHolder) SetUUID(n []byte) {
	u.uuid = append(u.uuid[:0], n...)
}

// UseUUIDHolder keeps the method reachable.
func UseUUIDHolder(h *uuidHolder, b []byte) {
	h.SetUUID(b)
}

// L-DIVMUL: the remainder of timescale/1000 is dropped before the multiplication.
func ticksWrong(ms, timescale uint64) uint64 {
	perMS := timescale / 1000
	return ms * perMS
}

// G3X: only "not shorter" is checked in the wrong direction.
func crossIndexWrong(a, b []uint32) bool {
	if len(a) < len(b) {
		return false
	}
	for j := 0; j < len(a); j++ {
		if a[j] != b[j] {
			return false
		}
	}
	return true
}

// G3D: the carry decides when to stop, not the index.
func carryDown(iv []byte, carry int) {
	for i := len(iv) - 1; carry > 0; i-- {
		sum := int(iv[i]) + carry
		iv[i] = byte(sum)
		carry = sum >> 8
	}
}

// G-OVF: the sum wraps for n near the maximum.
type sumReader struct {
	buf []byte
	pos int
}

func (s *sumReader) take(n int) []byte {
	if n < 0 {
		return nil
	}
	end := s.pos + n
	if end > len(s.buf) {
		return nil
	}
	res := s.buf[s.pos:end]
	s.pos = end
	return res
}

// TakeFromHeader hands take a 64-bit size read from the data.
func TakeFromHeader(s *sumReader, hdr []byte) []byte {
	return s.take(int(binary.BigEndian.Uint64(hdr)))
}

// L-NEGCONV: wraps for samples shorter than 4 bytes.
func lastStartWrong(sample []byte) int {
	n := 0
	length := len(sample)
	lastStart := uint64(length - 4)
	for pos := uint64(0); pos < lastStart; pos += 4 {
		n++
	}
	return n
}

// L-COPYMUT: the pointer-receiver method changes a copy of the field.
type naluRec struct {
	arrays []int
}

func (r *naluRec) Add(v int) {
	r.arrays = append(r.arrays, v)
}

type recHolder struct {
	Rec naluRec
}

func copyMutated(h *recHolder, v int) {
	rec := h.Rec
	rec.Add(v)
}

// L-DEADFIELD: the non-sync bit computed first is thrown away by the struct literal.
type sampleFlagsT struct {
	NonSync bool
	Leading byte
}

func structOverwrite(sync bool, lead byte) sampleFlagsT {
	var f sampleFlagsT
	if !sync {
		f.NonSync = true
	}
	if lead > 0 {
		f = sampleFlagsT{Leading: lead}
	}
	return f
}

// L-NARROWSHIFT: the two top bits of id are gone before the widening.
type loudness struct {
	DownmixID uint8
	DRCSetID  uint8
}

func packWrong(l loudness) uint16 {
	return uint16(l.DownmixID<<6) | uint16(0x3f&l.DRCSetID)
}

// L-DEADAPPEND: the slice built is never assigned back.
type childList struct {
	Children []int
}

func insertLost(c *childList, at, v int) {
	children := make([]int, 0, len(c.Children)+1)
	children = append(children, c.Children[:at]...)
	children = append(children, v)
	children = append(children, c.Children[at:]...)
}

// G7-IDX: the last chunk is refused.
type offsetTable struct {
	ChunkOffset []uint64
}

func (b *offsetTable) getOffsetWrong(chunkNr int) (uint64, error) {
	if chunkNr <= 0 || chunkNr >= len(b.ChunkOffset) {
		return 0, io.ErrUnexpectedEOF
	}
	return b.ChunkOffset[chunkNr-1], nil
}

// UseOffsetTable keeps the method reachable.
func UseOffsetTable(b *offsetTable) (uint64, error) {
	return b.getOffsetWrong(1)
}

// L-BOUNDARY: the value 2^32 itself is kept on the 32-bit side.
type timeBox struct {
	Version byte
	Time    uint64
}

func (t *timeBox) setTimeWrong(v uint64) {
	if v > 1<<32 {
		t.Version = 1
	} else {
		t.Version = 0
	}
	t.Time = v
}

// UseTimeBox keeps the method reachable.
func UseTimeBox(t *timeBox, v uint64) { t.setTimeWrong(v) }

// L-BITOVERLAP: two accessors of a packed byte read the same bits.
type packedEntry uint8

func (e packedEntry) Leading() uint8    { return (uint8(e) >> 6) & 3 }
func (e packedEntry) DependsOn() uint8  { return (uint8(e) >> 4) & 3 }
func (e packedEntry) DependedOn() uint8 { return (uint8(e) >> 4) & 3 }
func (e packedEntry) Redundancy() uint8 { return uint8(e) & 3 }

// L-SHAREDCHILD: one child for every parent.
type node struct {
	Children []*node
}

func (n *node) AddChild(c *node) { n.Children = append(n.Children, c) }

func shareWrong(ids []int) []*node {
	var out []*node
	leaf := &node{}
	for range ids {
		parent := &node{}
		parent.AddChild(leaf)
		out = append(out, parent)
	}
	return out
}

// UseNodes keeps the functions reachable.
func UseNodes(ids []int, e packedEntry) ([]*node, uint8) {
	return shareWrong(ids), e.Leading() + e.DependsOn() + e.DependedOn() + e.Redundancy()
}

// O-CAP: the result keeps the capacity of the rest of the buffer.
type rawReader struct {
	buf []byte
	pos int
}

func (s *rawReader) takeWrong(n int) []byte {
	res := s.buf[s.pos : s.pos+n]
	s.pos += n
	return res
}

// UseRawReader keeps the method reachable.
func UseRawReader(s *rawReader) []byte { return s.takeWrong(2) }

// G-NILFIELD: the slice the decoder fills by index is never made.
type nilFieldRec struct {
	Count  int
	Values []uint32
}

func decodeNilField(data []byte) *nilFieldRec {
	rec := nilFieldRec{Count: len(data)}
	for i := 0; i < rec.Count; i++ {
		rec.Values[i] = uint32(data[i])
	}
	return &rec
}

// UseNilField keeps the function reachable.
func UseNilField(data []byte) *nilFieldRec { return decodeNilField(data) }

// L-PROGRESS: the short-unit case goes round without moving the cursor.
func walkStuck(sample []byte) int {
	n := 0
	pos := 0
	for pos < len(sample)-1 {
		l := int(sample[pos])
		if l < 2 {
			continue
		}
		pos += 1 + l
		n++
	}
	return n
}

// UseWalkStuck keeps the function reachable.
func UseWalkStuck(b []byte) int { return walkStuck(b) }

// L-RAWDEFAULT: the box is built from the raw value, the default comes too late.
type cfgBox struct {
	Config string
}

func describeWrong(config string) (*cfgBox, int) {
	b := &cfgBox{}
	b.Config = config
	if config == "" {
		config = "WEBVTT"
	}
	return b, len(config)
}

// UseDescribe keeps the function reachable.
func UseDescribe(s string) (*cfgBox, int) { return describeWrong(s) }

// L-TRUNCCOPY: the configuration is squeezed into eight bytes.
func squeezeWrong(cfg []byte) []byte {
	var room [8]byte
	n := copy(room[:], cfg)
	return append([]byte(nil), room[:n]...)
}

// L-FILTERBREAK: everything after the dropped child is lost.
type kidList struct {
	Kids []int
}

func (k *kidList) dropFirstWrong(v int) {
	kept := make([]int, 0, len(k.Kids))
	for _, x := range k.Kids {
		if x == v {
			break
		}
		kept = append(kept, x)
	}
	k.Kids = kept
}

// UseSqueeze keeps the functions reachable.
func UseSqueeze(b []byte, k *kidList) []byte {
	k.dropFirstWrong(1)
	return squeezeWrong(b)
}

// L-RAWFIELD: the raw slice type is compared although 5..9 alias 0..4.
type sliceHdr struct {
	SliceType uint32
	L1        bool
}

func parseRawWrong(sh *sliceHdr) int {
	st := sh.SliceType % 5
	n := 0
	if st == 1 {
		n++
	}
	if sh.SliceType == 1 {
		sh.L1 = true
	}
	return n
}

// UseParseRaw keeps the function reachable.
func UseParseRaw(sh *sliceHdr) int { return parseRawWrong(sh) }

// L-EARLYLOAD: the presence test is computed before the flag it depends on is read.
type fieldHdr struct {
	FieldPic bool
	Delta    int
}

func parseEarlyWrong(data []byte, present bool) *fieldHdr {
	sh := fieldHdr{}
	deltaPresent := present && !sh.FieldPic
	sh.FieldPic = len(data) > 0 && data[0]&1 == 1
	if deltaPresent {
		sh.Delta = len(data)
	}
	return &sh
}

// UseParseEarly keeps the function reachable.
func UseParseEarly(data []byte) *fieldHdr { return parseEarlyWrong(data, true) }

// S-WHOLE: Size() counts every entry, EncodeSW walks a clamped prefix.
type refList struct {
	Refs []uint32
}

func (b *refList) Size() uint64 { return 8 + 4*uint64(len(b.Refs)) }

func (b *refList) EncodeSW(out *[]byte) error {
	n := len(b.Refs)
	if n > 0xffff {
		n = 0xffff
	}
	for _, x := range b.Refs[:n] {
		*out = append(*out, byte(x))
	}
	return nil
}

// UseRefList keeps the methods reachable.
func UseRefList(b *refList, out *[]byte) uint64 { _ = b.EncodeSW(out); return b.Size() }

// T-MMCO: operation 3 reads one operand only.
type egReader struct{ pos int }

func (r *egReader) ReadExpGolomb() uint { r.pos++; return uint(r.pos) }

func parseMarkingWrong(r *egReader) (a, b, c2 uint) {
	for {
		op := r.ReadExpGolomb()
		switch op {
		case 0:
			return
		case 1, 3:
			a = r.ReadExpGolomb()
		case 2:
			b = r.ReadExpGolomb()
		case 4, 6:
			c2 = r.ReadExpGolomb()
		}
		if r.pos > 100 {
			return
		}
	}
}

// UseParseMarking keeps the function reachable.
func UseParseMarking(r *egReader) uint { a, b, c := parseMarkingWrong(r); return a + b + c }

// verifchk decides the structural clauses of one property of Eyevinn/mp4ff
// from the source in /repo (current working tree) without running it.
package main

import (
	"flag"
	"fmt"
	"os"
	"path/filepath"
	"runtime/debug"
	"strconv"
	"strings"
	"time"

	"verifchk/chk"
)

func main() {
	prop := flag.String("prop", "", "property id (C01..C20) or 'all'")
	tier := flag.String("tier", os.Getenv("VERIF_TIER"), "quick|thorough")
	repo := flag.String("repo", envOr("VERIF_REPO", "/repo"), "repository directory")
	verif := flag.String("verif", envOr("VERIF_DIR", ""), "verif directory (default: cwd)")
	props := flag.String("props", "", "development aid: comma-separated property ids decided in one process on one load of the tree (quick tier only)")
	only := flag.String("only", "", "print only obligations whose key contains this string (replay)")
	list := flag.Bool("list", false, "print every obligation")
	flag.Parse()
	if *tier == "" {
		*tier = "quick"
	}
	if *verif == "" {
		wd, _ := os.Getwd()
		*verif = wd
		if _, err := os.Stat(filepath.Join(wd, "known-findings.json")); err != nil {
			if _, err2 := os.Stat("/verif/known-findings.json"); err2 == nil {
				*verif = "/verif"
			}
		}
	}
	chk.FixtureDir = filepath.Join(*verif, "checker", "fixture")
	seed, _ := strconv.ParseInt(os.Getenv("VERIF_SEED"), 10, 64)
	t0 := time.Now()
	if *props != "" {
		os.Exit(runMany(strings.Split(*props, ","), *repo, *verif, *tier, seed))
	}
	fn, ok := chk.Registry[*prop]
	if !ok {
		fmt.Fprintf(os.Stderr, "unknown property %q; have %v\n", *prop, chk.RegistryKeys())
		os.Exit(2)
	}
	known, err := chk.LoadKnown(filepath.Join(*verif, "known-findings.json"))
	if err != nil {
		fmt.Fprintf(os.Stderr, "INFRA: cannot read known-findings.json: %v\n", err)
		os.Exit(2)
	}
	rep := chk.NewReport(*prop)
	var ctx *chk.Ctx
	func() {
		defer func() {
			if r := recover(); r != nil {
				rep.Infra = append(rep.Infra, fmt.Sprintf("analyser panic: %v\n%s", r, debug.Stack()))
			}
		}()
		ctx, err = chk.Load(*repo, *tier)
		if err != nil {
			// a tree that does not load or type-check cannot be decided: report, do not pass
			rep.Undecided("LOAD", "packages", "", err.Error())
			return
		}
		fn(ctx, rep)
	}()
	// thorough tier: a second complete pass over the 32-bit build (GOARCH=386: int is 32 bits, build-constrained
	// files differ); every obligation violated or undecided there and not in the first pass is added.
	if *tier == "thorough" && os.Getenv("VERIF_GOARCH") == "" && len(rep.Infra) == 0 && ctx != nil {
		os.Setenv("VERIF_GOARCH", "386")
		rep2 := chk.NewReport(*prop)
		func() {
			defer func() {
				if r := recover(); r != nil {
					rep.Infra = append(rep.Infra, fmt.Sprintf("analyser panic in the GOARCH=386 pass: %v\n%s", r, debug.Stack()))
				}
			}()
			ctx2, err := chk.Load(*repo, *tier)
			if err != nil {
				rep.Undecided("LOAD", "packages [GOARCH=386]", "", err.Error())
				return
			}
			fn(ctx2, rep2)
		}()
		os.Unsetenv("VERIF_GOARCH")
		first := map[string]chk.Status{}
		for _, o := range rep.Obls {
			first[o.Key] = o.Status
		}
		added, same := 0, 0
		for _, o := range rep2.Obls {
			if o.Status == chk.Discharged {
				continue
			}
			if st, ok := first[o.Key]; ok && st == o.Status {
				same++
				continue
			}
			added++
			o.Key += " [GOARCH=386]"
			o.Detail += " (only in the 32-bit build)"
			rep.Obls = append(rep.Obls, o)
		}
		rep.Extra["second_pass_GOARCH_386_obligations"] = len(rep2.Obls)
		rep.Extra["second_pass_GOARCH_386_new_violations"] = added
		rep.Extra["second_pass_GOARCH_386_same_violations"] = same
	}
	if *list || *only != "" {
		for _, o := range rep.Obls {
			if *only == "" || strings.Contains(o.Key, *only) {
				fmt.Printf("  [%s] %s %s %s\n", o.Status, o.Key, o.Pos, o.Detail)
			}
		}
	}
	out := chk.Finish(rep, ctx, *verif, *tier, seed, t0, known)
	os.Exit(out.ExitCode)
}

func envOr(k, d string) string {
	if v := os.Getenv(k); v != "" {
		return v
	}
	return d
}

// runMany decides several properties on one load of the tree (development aid for the seeded / refactoring corpora:
// the registered commands always run one property per process).
func runMany(ids []string, repo, verif, tier string, seed int64) int {
	known, err := chk.LoadKnown(filepath.Join(verif, "known-findings.json"))
	if err != nil {
		fmt.Fprintf(os.Stderr, "INFRA: cannot read known-findings.json: %v\n", err)
		return 2
	}
	ctx, lerr := chk.Load(repo, tier)
	code := 0
	for _, id := range ids {
		fn, ok := chk.Registry[id]
		if !ok {
			fmt.Fprintf(os.Stderr, "unknown property %q\n", id)
			return 2
		}
		t0 := time.Now()
		rep := chk.NewReport(id)
		func() {
			defer func() {
				if r := recover(); r != nil {
					rep.Infra = append(rep.Infra, fmt.Sprintf("analyser panic: %v\n%s", r, debug.Stack()))
				}
			}()
			if lerr != nil {
				rep.Undecided("LOAD", "packages", "", lerr.Error())
				return
			}
			fn(ctx, rep)
		}()
		out := chk.Finish(rep, ctx, verif, tier, seed, t0, known)
		if out.ExitCode > code {
			code = out.ExitCode
		}
	}
	return code
}

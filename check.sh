#!/bin/bash
# usage: check.sh <property-id> <quick|thorough>
# Decides the property's structural clauses from /repo's current working tree (static analysis only).
set -u
cd "$(dirname "$0")"
export GOFLAGS=-mod=mod GOPROXY=off GOSUMDB=off GOTOOLCHAIN=local CGO_ENABLED=0
unset GOWORK
PROP="$1"; TIER="${2:-quick}"
BIN=checker/bin/verifchk
# rebuild the analyser if its sources are newer than the binary (cheap; the analysis itself always reads /repo afresh)
if [ ! -x "$BIN" ] || [ -n "$(find checker -name '*.go' -newer "$BIN" 2>/dev/null | head -1)" ]; then
  (cd checker && go build -o bin/verifchk ./cmd/verifchk) || { echo "INFRA: cannot build verifchk" >&2; exit 2; }
fi
exec "$BIN" -prop "$PROP" -tier "$TIER" -verif "$(pwd)" -repo "${VERIF_REPO:-/repo}"

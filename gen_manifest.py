#!/usr/bin/env python3
"""Regenerates MANIFEST.json from the table below (kept in one place so that the
claimed / not_applicable lists never drift apart)."""
import json, os

HERE = os.path.dirname(os.path.abspath(__file__))

# id -> (technique, level text, level note, design ref)
CLAIMED = {
 "C01": ("wire-layout abstract interpretation with a bit-provenance domain: E(D(x)) = x per bit, per discriminant configuration (boxes and the inner codecs of sample-group entries, tfxd/tfrf); committed don't-care ledger; CFG path rules on the decoders (sticky reader error consulted, trial-parse cleanup on failure), inferred counter/list lockstep pairs; reader/writer field order and width agreement (CFG reachability between SliceReader and SliceWriter call sites) also for irregular boxes and descriptors; append-alias lint; AddChild must-store-Children path rule",
         "Structural part only: for every registered box type outside a frozen irregular table, and every configuration of its discriminants (version, flag bits, compared counts, header length, presence predicates), each bit the encoder writes is the input bit the decoder kept for that position, or a constant where the decoder discards (and those runs are on the committed don't-care list); field order, widths, guards and loop structure agree; for mdat (the box that records its header form) the written header is as long as the decoded one. Not decided: irregular boxes (esds, meta, senc, sgpd, uuid, moof, hdlr, mime), numeric loop bounds, value arithmetic in opaque expressions, the decode-again fixed point.",
         "the interpreter models the bits.* stream APIs and analyses loops on one generic iteration; integer conversions inside opaque arithmetic are assumed value-preserving; children are opaque (each child type is its own obligation).", "DESIGN.md §3 E1, §4 C01"),
 "C02": ("wire-layout abstract interpretation: symbolic byte count of EncodeSW vs Size() as polynomials per configuration, header writers interpreted; wrapper-shape rule; member-set agreement of composites on a symbolic receiver; narrow-multiplication lint over the size functions; live-children rule; make-then-append lint; trial-parse cleanup path rule; size-dependence rule (fields Size() reads vs fields EncodeSW reads); dependence clause on the modelled string writer",
         "Structural part only: per configuration the symbolic number of bytes EncodeSW writes equals Size() and the header carries Size() of the same box (all registered box types outside the irregular table, avc/hevc/av1 configuration records through their boxes); every Encode wrapper allocates exactly Size(); no product of two non-constant values in a size function is computed in 32 bits or fewer and only then widened; Size/Encode/EncodeSW of File, InitSegment, MediaSegment and Fragment visit the same members. Not decided: irregular boxes, numeric equality of loop bounds, idempotence of repeated encodes, API-built box values that violate decoder-established length facts.",
         "as C01; composites are analysed on a symbolic receiver whose members are opaque.", "DESIGN.md §3 E1/E7, §4 C02"),
 "C03": ("registry/delegation/wrapper shape rules over go/types + go/ssa; wire-layout sibling comparison; size-dependence rule; encoder-pair condition agreement; position-from-input dependence rules; stale-read-across-impure-observer ordering rule",
         "Structural necessary conditions only: the two decoder registries agree key-by-key (same pairing, same concrete box types), every delegating reader-path decoder delegates to its registered twin over exactly its own body, every Encode wrapper allocates Size() and writes what EncodeSW produced, separately written decoder/encoder pairs have the same wire layout, the file-level encoders visit the same members. Not decided: numeric equality of start positions, error texts.",
         "go/types + go/ssa of x/tools v0.29.0 are trusted; dynamic calls in decoders are not resolved (none today).", "DESIGN.md §4 C03"),
 "C04": ("SSA taint + dominance guard analysis (allocations, loops, constant and untrusted indices, divisions, cursor width) with checked data-structure invariants; nil-guard dominance on optional child fields and nil-able getter results; checked type assertions; must-pass-through rules on the header decoders (size vs header length) and on segment creation; cross-slice index, scanner slice-bound and overflow-safe-guard rules; call-graph reachability of explicit panics, who-may-call on storage-sharing reader methods; library-wide error discipline",
         "Structural necessary conditions over everything reachable from the decode / Info / Encode / Size entry points: no explicit panic reachable; every constant index or constant slice bound is dominated by a length test, long enough by construction, or rests on a named invariant that is itself checked; an input-derived index is compared with the length of the slice it selects from (or cannot reach a fixed table length); every division by a non-constant is dominated by a non-zero test or a checked invariant; a slice made in a function is indexed below its length in counted loops; a cursor advanced by an untrusted length is wider than the length; DecodeBoxSR compares the unsigned box size itself with the remaining bytes; every allocation sized by a wide untrusted value (reader results, BoxHeader.Size on the reader path) is dominated by a comparison on that value (also recognised when the value was validated where it was stored into a struct field, under conditions that hold at the allocation); every cycle of a loop that consumes the stream passes an error test of the sticky-error reader, an exit taken on all-zero data, or a bounded counter test; a field holding an optional child box is dereferenced only after a nil test (or a fresh store, a correlated test, or a test at every call site); an unchecked type assertion on a box stands under a box-type-name test for which every registered decoder returns exactly the asserted type; io.ReadAll only on io.LimitReader; no decoder keeps storage of the reader it was given. Not decided: indices computed from non-input values outside counted loops, nil dereferences other than of optional child fields, correctness of a guard's arithmetic beyond the listed forms, time constants.",
         "taint is flow-insensitive on struct fields (and on the elements of slice-typed fields); for allocations and reading loops a guard is a dominating comparison sharing a taint root that bounds the tainted side from above (arithmetic not checked); taint follows static calls and VTA-resolved dynamic calls; the 14 invariant entries are a frozen table, each with its structural check; call graph VTA.", "DESIGN.md §3 E3/E4, §4 C04"),
 "C05": ("ordering (dominance) and data-dependence obligations over go/ssa for the fragment write/read path; adopt-then-append ownership rule; narrow-accumulator lint; lazy-size reset ordering rule",
         "Narrow clauses only: SetTrunDataOffsets dominates every child encode and follows OptimizeTfhdTrun; decode time is set only under a test of the track's first run; appended samples are accounted in mdat; run numbers come from nextTrunNr which is advanced; trun data offsets depend on Moof.Size(), Mdat.HeaderSize(), SizeOfData() and write order; read-side offsets/times/defaults depend on the tfhd/trex/tfdt/trun/mdat quantities the standard names; trun optimisation compares samples with ==/!= only. Not decided: numeric correctness of offsets, arbitrary multi-track interleavings, optimisation correctness.",
         "dependence is intraprocedural SSA data dependence plus return dependence of repository callees (3 levels).", "DESIGN.md §4 C05"),
 "C06": ("loop-cycle pairing rule, data-dependence and ordering obligations over go/ssa for the encrypt/decrypt path; every-iteration path rule; read-only storage rule for tenc; nil-then-range lint; every-cycle-calls path rule for the per-sample bookkeeping; down-counting index rule",
         "Narrow clauses only: RemoveEncryptionBoxes keeps or counts every child; DataOffset correction depends on the removed byte counts; saio offset depends on the sizes of all boxes preceding the senc data; DecryptInit attaches a trex to a track info only under a test of equal track ids; ContainsSencBox answers not-found only after all children; original sample entry type captured before renaming and restored from frma; senc/saiz record the iv and pattern actually used, iv advanced afterwards (cenc) or never (cbcs); decrypt uses senc/tenc values. Not decided: byte-exact restoration, cipher arithmetic, counter wrap.",
         "as C05.", "DESIGN.md §4 C06"),
 "C07": ("normalised-AST sibling comparison, who-may-construct over the call graph, ordering/dependence obligations, fresh-block-mode-per-range rule, sibling-list lint on twin loop bodies, cursor-skip rule on the sub-sample walkers",
         "Narrow clauses only: GetAVCProtectRanges and GetHEVCProtectRanges are identical modulo avc/hevc; SubSamplePattern values on the encrypt path are built only by AppendProtectRange; senc/saiz describe what the crypt call used and the iv advance order is right; saio offset depends on the preceding boxes; in cbcs the CBC block mode used for a protected range is created from the IV for that range. NOT decided: equality with a reference cipher, block/pattern arithmetic, partition exactness, IV carry arithmetic.",
         "clone comparison ignores comments, local names and error texts.", "DESIGN.md §4 C07"),
 "C08": ("data-dependence, shape and strictness rules over go/ssa for the lazy-mdat path; dominance rules: absolute seek before every positional read, non-negative test before a relative seek; fresh-result rule",
         "Narrow clauses only: lazy payload size and seek distance depend on box size AND actual header length; the three mdat decoders derive LargeSize/StartPos alike; DecodeBoxLazyMdat has the same header-decode / registry lookup / unknown fallback / decoder call as DecodeBox and seeks only after a successful lazy decode; ReadData/CopyData reject a range end only when strictly beyond the data; direct file-to-writer copies in CopySampleData happen only without a work buffer and the buffer remainder is flushed; File.AddChild's previous-mdat-is-empty test depends on the lazily decoded size; first-chunk and last-chunk clipping are independent; no payload start is StartPos plus a constant. Not decided: seek arithmetic values, refill correctness for all buffer sizes.",
         "dependence is intraprocedural SSA data dependence plus return dependence of repository callees.", "DESIGN.md §4 C08"),
 "C09": ("coherence-group rule, narrow-multiplication lint, divide-before-multiply lint, linear index-vs-length comparison, dependence and independence clauses over go/ssa",
         "Narrow clauses only: a per-interval result slice is indexed below the length it was made with for every interval the entry tests allow; GetContainingChunks looks the stsc entry up per chunk; a present stss decides sync status also when empty; first/last chunk clipping are independent; every function in every package that stores the length-defining member of a sample table also stores its cached/parallel members; no product of two non-constant 32-bit values is widened only after the multiplication in the sample-table query code. The queries' index arithmetic (binary searches, run-length walks, chunk mapping) is NOT decided.",
         "coherence groups are a frozen table confirmed by reading.", "DESIGN.md §4 C09"),
 "C10": ("switch exhaustiveness (AST), coherence-group rule, narrow-multiplication lint, strict-upper-bound rule (also through predicate helpers), inferred counter/list lockstep pairs (CFG path rule), data-dependence of the written chunk offsets, divide-before-multiply lint",
         "Narrow clauses only: the crop switch handles all eight sample-table box types by calling a crop/update function; crop functions keep parallel/cached table members in step; no 32-bit product widened after the multiplication in the time/offset code the tool uses; the cropped stsz count comes from the cut point; no payload start is StartPos plus a constant. Not decided: the cut point, sync-sample selection, durations.",
         "as C09.", "DESIGN.md §4 C10"),
 "C11": ("error-discipline path analysis over go/ssa (error value must be used on every path from the call); boundary, fallback and independence clauses; loop-carried buffer alias lint; struct-overwrite dead-store lint",
         "Narrow clauses only: the segmenter's last (inclusive) sample interval ends at the sample count itself; a default duration handed to TrunBox.Duration/CommonSampleDuration is resolved from tfhd and trex; sample bytes are located from the mdat box's own header length; first/last chunk clipping in the lazy copy are independent; in the segmenter, resegmenter and combine-segs examples and MediaSegment.Fragmentify, no error from a sample-moving call is discarded or overtaken by a decision on the co-returned value. Sample conservation as a whole (interval arithmetic, sync starts) is NOT decided.",
         "printing and Close calls are outside the rule.", "DESIGN.md §4 C11"),
 "C12": ("member-set agreement on a symbolic receiver, delimiter-order rule (SSA), data-dependence, coherence groups, ordering clauses, delimiter-consultation and position-from-header rules",
         "Narrow clauses only: Size/Encode/EncodeSW of File, MediaSegment and Fragment visit the same members in the same order; index delimiters take precedence over the start-on-moof option; sidx reference size/duration depend on MediaSegment.Size() and summed sample durations; Sidx/Sidxs updated together; durations are summed after tfhd/trex defaults are applied and trex defaults are only a fallback to tfhd; the add-sidx tool removes boxes before the index sizes are computed. Not decided: the partition for a given delimiter mix, anchor arithmetic.",
         "as C02 for the composites.", "DESIGN.md §4 C12"),
 "C15": ("id-domain typing of map keys over go/ssa; cross-wired field-copy rule; specification-table equality (H.264 Table E-1); sibling-list lint; signed-modulo bias rule",
         "One clause only: SPS maps are keyed by SPS-domain ids and PPS maps by PPS-domain ids at every lookup and insertion (avc, hevc, mp4/crypto, cmd tools); a key read back from a field written in the same function carries the domain of the written value. Parsed values, cropping formula, slice-header length, codec strings are NOT decided.",
         "the id-domain table is frozen from the field declarations.", "DESIGN.md §4 C15"),
 "C17": ("wire-layout abstract interpretation at bit level for typed SEI messages; state-restore rule; ordering/dependence for the SEI writer; decoder purity (no store through, no return of, a pointer parameter); must-pass-through rules on the EBSP reader reset and the SEI message loop",
         "Structural part only: for SEI 136/137/144, Payload() executed on the decoded abstract value reproduces every bit the decoder kept (plus alignment bits) under every flag/count configuration, and no value bit falls beyond Size(); MoreRbspData restores every reader field that Read modifies; WriteSEIMessages writes type, size, then the payload bytes, and the 0xFF-run writer continues while the remainder is >= 255; pass-through messages return the stored payload. Not decided: emulation prevention and trailing-bit detection arithmetic, AVC pic timing (external HRD parameters).",
         "as C01; counts of at most 6 bits are enumerated over their full range.", "DESIGN.md §4 C17"),
 "C18": ("inverse-table check on map literals; wire-layout abstract interpretation at bit level for AudioSpecificConfig; data-dependence for SetAACDescriptor; specification-table equality; truncate-then-reuse lint; ADTS field-sequence agreement; escape-site count agreement for the explicit frequency",
         "Structural part only: FrequencyTable and ReverseFrequencies are mutual inverses (complete over the literals); AudioSpecificConfig.Encode executed on the decoded abstract value reproduces every bit read, for every object type / frequency index (incl. the 24-bit escape with non-table frequencies) / SBR configuration; the esds decoder-specific info depends on the encoded configuration; the SetAACDescriptor arm that sets parametric stereo also sets SBR and the extension frequency. ADTS is covered only by the table rule (its decoder is a sync-search loop). Numeric exhaustiveness over the domain is another technique family's job.",
         "as C01; a table frequency coded with the 24-bit escape is excluded as a non-canonical encoding (the property is stated for encode-then-decode).", "DESIGN.md §4 C18"),
 "C19": ("data-dependence / dominance obligations, parameter-forwarding and crosswise-argument rules over go/ssa, error discipline, table-reachability rule on guarded lookups into the AC-3 specification tables (linear comparison of the guard with the table length), lost-update-on-copy lint",
         "Narrow clauses only: in AddEmptyTrack trak and trex get the same id derived from the track count, NextTrackID is stored unconditionally from it, both are attached on every path; MdhdBox.SetLanguage computes the packed code from its argument only; the HE-AAC v2 arm of SetAACDescriptor sets SBR and the extension frequency; same-named same-typed parameters are forwarded to each other in the init-segment API; descriptor-builder errors are looked at on every path. Not decided: equality of the built tree after encode/decode, golden files.",
         "forwarding rule is name-based (same name and identical type).", "DESIGN.md §4 C19"),
 "C16": ("SSA taint + dominance guard analysis, loop-cycle analysis, scanner-bound and cursor-walk rules (linear forms over SSA leaves, closed form of constant-step cursors against hoisted length tests), down-counting and cross-slice index rules, unsigned-difference lint, direction-sensitive guards with taint through VTA-resolved dynamic calls, call-graph reachability of explicit panics",
         "Structural necessary conditions over everything reachable from the exported avc/hevc/sei/aac/av1 helpers that take raw bytes or readers: no explicit panic reachable; constant indices / slice bounds, input-derived indices, divisions, counted indexing of local slices and cursor width as in C04; in the start-code scanners `for i < len-k` every element i+c read has c <= k or its own length test; allocations sized by wide untrusted counts are guarded; every cycle of a loop that reads from the sticky-error bit readers passes an error test, an exit taken on all-zero data, or a bounded counter test. Not decided: indices computed from non-input values outside those shapes, nil dereferences, time constants.",
         "as C04.", "DESIGN.md §3 E3/E4, §4 C16"),
 "C20": ("who-may-write analysis of package-level state and who-may-call on storage-sharing reader methods over go/ssa + VTA call graph; decoder/observer purity and ownership rules (no store through or return of a pointer parameter, element owners, adopt-then-append, range-value assignment lint, global-storage sharing and in-place refill rules)",
         "Decides absence of hidden shared mutable state in the library: every write rooted at a package-level variable is in an init function or in SetBoxDecoder/RemoveBoxDecoder; no package-level sync/atomic values; no library function calls (*bytes.Buffer).Next/Bytes or (*bufio.Reader).Peek on the io.Reader it was given, so decoded structures do not alias the caller's input. This is a necessary condition for race freedom of independent objects, not a proof of it.",
         "call graph is VTA over CHA; reflection/unsafe writes and races inside the standard library are outside the model.", "DESIGN.md §4 C20"),
}

NOT_APPLICABLE = {
 "C13": "bit/Exp-Golomb/emulation-prevention inverse-ness is shift/mask arithmetic over unbounded bit strings; no structural rule is a necessary condition without freezing source fragments (DESIGN.md §6)",
 "C14": "equivalence of the word-at-a-time start-code scanner with a byte scan, and NAL sequence preservation, are value-level properties; no sound structural clause (memory safety of the walkers is covered under C16) (DESIGN.md §6)",
}

NOT_YET = "static check for this property's structural clauses is designed (DESIGN.md §4) but not yet built in this round; not claimed until it is"

ALL = ["C%02d" % i for i in range(1, 21)]

def main():
    checks = []
    for pid in ALL:
        if pid not in CLAIMED:
            continue
        tech, text, note, ref = CLAIMED[pid]
        checks.append({
            "property_id": pid,
            "quick_cmd": "./check.sh %s quick" % pid,
            "thorough_cmd": "./check.sh %s thorough" % pid,
            "evidence_file": "/verif/evidence/%s.json" % pid,
            "replay_cmd_template": "cat {path}; ./check.sh %s quick" % pid,
            "engine": "verifchk",
            "level_claimed": {"category": "other", "text": text, "design_ref": ref},
            "level_note": note,
            "technique": "static analysis: " + tech,
        })
    na = []
    for pid in ALL:
        if pid in CLAIMED:
            continue
        na.append({"property_id": pid, "reason": NOT_APPLICABLE.get(pid, NOT_YET)})
    m = {
        "version": 1,
        "setup_cmd": "./setup.sh",
        "hooks": {
            "guard": "verif",
            "enable": "no hooks: the analysis reads /repo's source (go/packages on the working tree); nothing in /repo is built with a tag",
            "baseline_off_cmd": "cd /repo && GOFLAGS=-mod=mod GOPROXY=off go test -vet=off -count=1 ./...",
            "source_commits": [],
            "add_only": True,
        },
        "engines": [{
            "name": "verifchk", "path": "checker/",
            "serves_properties": sorted(CLAIMED),
            "kind_free_text": "custom Go static analyser (go/packages, go/types, go/ssa, VTA call graph, AST layout interpreter); one binary, one rule set per property",
        }],
        "checks": checks,
        "not_applicable": na,
        "notes": "All checks are static: they load /repo's current working tree with go/packages on every run and never execute repository code. Level is 'other' throughout: named structural necessary conditions of the behavioural properties are decided, not the behaviour. Genuine defects are in known-findings.json (known = reported as KNOWN-FINDING, fixed = repaired by a 'fix:' commit in /repo).",
    }
    with open(os.path.join(HERE, "MANIFEST.json"), "w") as f:
        json.dump(m, f, indent=1)
        f.write("\n")

if __name__ == "__main__":
    main()

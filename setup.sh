#!/bin/bash
# Build the analyser from files on disk only (offline).
set -e
cd "$(dirname "$0")/checker"
export GOFLAGS=-mod=mod GOPROXY=off GOSUMDB=off GOTOOLCHAIN=local CGO_ENABLED=0
unset GOWORK
mkdir -p bin
go build -o bin/verifchk ./cmd/verifchk
echo "verifchk built"
